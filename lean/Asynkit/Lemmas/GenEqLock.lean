/-
C11 / C12 / C13 — the generated translation of the lock layer (`Asynkit/Gen/Lock.lean`, regenerated
from /repo/src/asynkit/experimental/priority.py on every run by translator/lock2lean.py) is the
hand-written model the theorems of Props/C11-C13 are about:

  Gen.taskEffectivePriority / lockEffectivePriority  =  PrioGraph.effT / effL   (every state, every fuel)
  Gen.taskPropagatePriority / lockPropagatePriority  =  Lock.propT / propL
  Gen.lockTakeLock, lockWakeUpFirst, lockRelease     =  State.takeLock, wakeUpFirst, Ev.release / Ev.badRelease
  Gen.lockAcquireEntry / ResumeValue / ResumeThrow   =  Ev.acquire / Ev.resume on a task suspended in acquire

The model additionally keeps a ghost record (`owns`) and the kernel's bookkeeping of a task step
(status, `cur`, `pos`); `noteOwned`, `noteReleased`, `kernelResume`, `queuedState`, `leaveAcquire` below are
exactly that and nothing else.
-/
import Asynkit.Gen.Lock
import Asynkit.Lemmas.C11Inherit3

namespace Asynkit.GenEqLock
open Asynkit Asynkit.Lock Asynkit.PrioGraph

/-- a task that is not a PriorityTask records no held lock (part of `Lock.Inv`) -/
def PlainHoldNothing (s : State) : Prop := ∀ i, (s.tasks i).prio = none → (s.tasks i).holding = []

theorem Inv.plain {s : State} (h : Inv s) : PlainHoldNothing s := by
  intro i hp
  have := h.holdingOwns i
  simpa [hp] using this

/-! ### effective priorities -/

theorem foldl_append_map {α β} (f : α → β) (l : List α) (init : List β) :
    List.foldl (fun acc x => acc ++ [f x]) init l = init ++ l.map f := by
  induction l generalizing init with
  | nil => simp
  | cons a l ih => simp [ih]

theorem foldl_min_assoc (xs : List Rat) (a b : Rat) :
    xs.foldl min (min a b) = min a (xs.foldl min b) := by
  induction xs generalizing b with
  | nil => rfl
  | cons y ys ih =>
    simp only [List.foldl_cons]
    have h : min (min a b) y = min a (min b y) := by grind
    rw [h, ih]

theorem foldl_min_minList (l : List Rat) (a : Rat) :
    l.foldl min a = (match minList l with | none => a | some m => min a m) := by
  cases l with
  | nil => rfl
  | cons x xs => simp only [minList, List.foldl_cons]; exact foldl_min_assoc xs a x

/-- a loop that appends the values that are not `None` is `filterMap` (whatever way the loop body is
    written, as long as it appends `g x` when there is one) -/
theorem foldl_filterMap {α} (F : List Rat → α → List Rat) (g : α → Option Rat)
    (h : ∀ acc x, F acc x = acc ++ (g x).toList) (l : List α) (init : List Rat) :
    List.foldl F init l = init ++ l.filterMap g := by
  induction l generalizing init with
  | nil => simp
  | cons a l ih =>
    simp only [List.foldl_cons, ih, h, List.filterMap_cons]
    cases g a <;> simp

theorem filterMap_id_map {α β} (g : α → Option β) (l : List α) :
    (l.map g).filterMap (fun p => p) = l.filterMap g := by
  induction l with
  | nil => rfl
  | cons a l ih => simp only [List.map_cons, List.filterMap_cons, ih]

end Asynkit.GenEqLock

namespace Asynkit.GenEqLock
open Asynkit Asynkit.Lock Asynkit.PrioGraph

theorem min_if (a b : Rat) : (if b < a then b else a) = min a b := by grind

/-- `PriorityTask.effective_priority` / `PriorityLock.effective_priority` (the Python source) are
    `PrioGraph.effT / effL` on the graph of the state - for every state and every recursion bound.
    (`fuel`: Python recurses without bound; `C11.eff_fuel_independent` shows that every bound above
    the rank gives the same value on an acyclic wait-for graph.) -/
theorem eff_eq (s : State) (hp : PlainHoldNothing s) : ∀ f,
    (∀ t, isPrio s t = true → Gen.taskEffectivePriority s f t = effT s.graph f t) ∧
    (∀ k, Gen.lockEffectivePriority s f k = effL s.graph f k) := by
  have hplain : ∀ f t, isPrio s t = false → effT s.graph f t = 0 := by
    intro f t h
    have hn : (s.tasks t).prio = none := by
      simp only [isPrio] at h; cases hh : (s.tasks t).prio <;> simp [hh] at h ⊢
    cases f with
    | zero => simp [effT_zero, State.graph, hn]
    | succ f => simp [effT_succ, State.graph, hn, hp t hn]
  intro f
  induction f with
  | zero =>
    constructor
    · intro t _; simp [Gen.taskEffectivePriority, fuelOutRat, priorityValue, effT_zero, State.graph]
    · intro k; simp [Gen.lockEffectivePriority, effL_zero]
  | succ f ih =>
    constructor
    · intro t _
      have hl : ∀ l, Gen.lockEffectivePriority s f l = effL s.graph f l := ih.2
      simp only [Gen.taskEffectivePriority]
      try rw [foldl_filterMap _ (fun l => Gen.lockEffectivePriority s f l)
        (by intro acc x; cases hx : Gen.lockEffectivePriority s f x <;> simp [hx])]
      simp only [Gen.taskPriority, holdingLocks, minOpt, priorityValue, hl,
        filterMap_id_map, effT_succ, foldl_min_minList, List.nil_append]
      simp only [State.graph]
      split <;> simp_all <;> grind
    · intro k
      simp only [Gen.lockEffectivePriority, waitersOf, minOpt, effL_succ, foldl_append_map, List.nil_append]
      by_cases he : (s.locks k).waiters = []
      · simp [he, State.graph, minList]
      · have : (s.locks k).waiters.isEmpty = false := by
          cases hw : (s.locks k).waiters <;> simp_all
        simp only [this, Bool.false_eq_true, if_false, State.graph, List.map_map]
        congr 1
        apply List.map_congr_left
        intro w _
        simp only [Function.comp]
        by_cases hpw : isPrio s w.task = true
        · simp [hpw, ih.1 w.task hpw, State.graph]
        · have hpw' : isPrio s w.task = false := by simpa using hpw
          have := hplain f w.task hpw'
          simp [hpw', State.graph] at this ⊢
          exact this.symm

/-- with the recursion bound of the state: `task.effective_priority()`, or 0 for a task without the
    method, is the model's `State.eff` -/
theorem eff_eq_state (s : State) (hp : PlainHoldNothing s) (t : Nat) :
    (if isPrio s t then Gen.taskEffectivePriority s s.fuel t else 0) = s.eff t := by
  by_cases h : isPrio s t = true
  · simp [h, (eff_eq s hp s.fuel).1 t h, State.eff]
  · have h' : isPrio s t = false := by simpa using h
    have hn : (s.tasks t).prio = none := by
      simp only [isPrio] at h'; cases hh : (s.tasks t).prio <;> simp [hh] at h' ⊢
    simp only [h', Bool.false_eq_true, if_false, State.eff]
    cases hf : s.fuel with
    | zero => simp [effT_zero, State.graph, hn]
    | succ f => simp [effT_succ, State.graph, hn, hp t hn]

end Asynkit.GenEqLock

namespace Asynkit.GenEqLock
open Asynkit Asynkit.Lock Asynkit.PrioGraph

/-! ### state extensionality helpers -/

theorem state_ext {a b : State} (ht : a.tasks = b.tasks) (hl : a.locks = b.locks) (he : a.evSet = b.evSet)
    (hc : a.cur = b.cur) (hf : a.fuel = b.fuel) (hp : a.prioLoop = b.prioLoop) : a = b := by
  cases a; cases b; simp_all

theorem setLock_self (s : State) (k : Nat) : s.setLock k (s.locks k) = s := by
  apply state_ext <;> try rfl
  funext j; by_cases c : j = k <;> simp [c]

theorem setTask_self (s : State) (i : Nat) : s.setTask i (s.tasks i) = s := by
  apply state_ext <;> try rfl
  funext j; by_cases c : j = i <;> simp [c]

theorem plain_keyEq {s s' : State} (h : PlainHoldNothing s) (e : KeyEq s s') : PlainHoldNothing s' := by
  intro i hi; rw [e.holding]; exact h i (by rw [← e.prio]; exact hi)

theorem isPrio_keyEq {s s' : State} (e : KeyEq s s') (i : Nat) : isPrio s' i = isPrio s i := by
  simp [isPrio, e.prio]

theorem pqReschedule_rekey (s : State) (k i : Nat) (p : Rat) :
    pqReschedule s k (fun w => if w.task = i then true else false) p =
      s.setLock k { s.locks k with waiters := rekey (s.locks k).waiters i p } := by
  simp only [pqReschedule, rekey]
  congr 2
  apply List.map_congr_left
  intro w _
  by_cases c : w.task = i <;> simp [c]

/-- the re-keying tail of `PriorityLock.propagate_priority` -/
theorem rekey_tail (s : State) (hp : PlainHoldNothing s) (k i : Nat) (hi : isPrio s i = true) :
    (if (waitersOf s k).isEmpty then (Except.ok s : Except (LockErr × State) State)
     else .ok (pqReschedule s k (fun w => if w.task = i then true else false)
                (Gen.taskEffectivePriority s s.fuel i))) =
      .ok (s.setLock k { s.locks k with waiters := rekey (s.locks k).waiters i (s.eff i) }) := by
  have he : Gen.taskEffectivePriority s s.fuel i = s.eff i := by
    have := eff_eq_state s hp i; simpa [hi] using this
  by_cases c : (s.locks k).waiters = []
  · have : s.setLock k { s.locks k with waiters := rekey (s.locks k).waiters i (s.eff i) } = s := by
      rw [c]; simp only [rekey, List.map_nil]
      have : ({ s.locks k with waiters := [] } : LockSt) = s.locks k := by
        cases h : s.locks k; simp_all
      rw [this, setLock_self]
    rw [this]; simp [waitersOf, c]
  · have : (s.locks k).waiters.isEmpty = false := by cases hw : (s.locks k).waiters <;> simp_all
    simp only [waitersOf, this, Bool.false_eq_true, if_false, he, pqReschedule_rekey]

/-- `PriorityTask.propagate_priority` / `PriorityLock.propagate_priority` (the Python source) are the
    model's `propT` / `propL`, for every state and recursion bound.  `propT` tests "is a PriorityTask"
    itself; in Python that test is the `except AttributeError` at each call site. -/
theorem prop_eq : ∀ (f : Nat) (s : State), PlainHoldNothing s →
    (∀ o x, isPrio s o = true → Gen.taskPropagatePriority f s o x = .ok (propT s f o)) ∧
    (∀ k i, isPrio s i = true → Gen.lockPropagatePriority f s k i = .ok (propL s f k i)) := by
  intro f
  induction f with
  | zero =>
    intro s _
    exact ⟨fun o x _ => by simp [Gen.taskPropagatePriority, propT],
           fun k i _ => by simp [Gen.lockPropagatePriority, propL]⟩
  | succ f ih =>
    intro s hp
    constructor
    · intro o x ho
      have hn : (s.tasks o).prio.isNone = false := by
        simp only [isPrio] at ho; cases h : (s.tasks o).prio <;> simp [h] at ho ⊢
      have he : Gen.taskEffectivePriority s s.fuel o = s.eff o := by
        have := eff_eq_state s hp o; simpa [ho] using this
      simp only [Gen.taskPropagatePriority, propT, hn, taskIsRunnable, loopHasReschedule, loopTaskReschedule,
        waitingOnOf, he, Bool.false_eq_true, if_false]
      by_cases hr : (s.tasks o).status.runnable = true
      · simp only [hr, if_true]
        by_cases hl : s.prioLoop = true <;> by_cases hk : (s.tasks o).rkey.isSome = true <;> simp [hl, hk]
      · simp only [hr, Bool.false_eq_true, if_false]
        cases hw : (s.tasks o).waitingOn with
        | none => rfl
        | some k1 => simp only []; rw [(ih s hp).2 k1 o ho]
    · intro k i hi
      simp only [Gen.lockPropagatePriority, propL, lockOwning]
      cases ho : (s.locks k).owner with
      | none =>
        simp only [hi, if_true]
        exact rekey_tail s hp k i hi
      | some o =>
        simp only []
        by_cases hpo : isPrio s o = true
        · simp only [hpo, if_true, (ih s hp).1 o k hpo]
          have e := propT_keyEq s f o
          have hi' : isPrio (propT s f o) i = true := by rw [isPrio_keyEq e]; exact hi
          simp only [hi', if_true]
          exact rekey_tail _ (plain_keyEq hp e) k i hi'
        · have hpo' : isPrio s o = false := by simpa using hpo
          have hn : (s.tasks o).prio.isNone = true := by
            simp only [isPrio] at hpo'; cases h : (s.tasks o).prio <;> simp [h] at hpo' ⊢
          have hT : propT s f o = s := by
            cases f with
            | zero => rfl
            | succ f' => simp [propT, hn]
          simp only [hpo', Bool.false_eq_true, if_false, hi, if_true, hT]
          exact rekey_tail s hp k i hi

end Asynkit.GenEqLock

namespace Asynkit.GenEqLock
open Asynkit Asynkit.Lock Asynkit.PrioGraph

/-! ### `_wake_up_first`, `_take_lock`, `release` -/

theorem foldl_any (f : Bool → Waiter → Bool) (p : Waiter → Bool) (h : ∀ a x, f a x = (a || p x))
    (l : List Waiter) (b : Bool) : List.foldl f b l = (b || l.any p) := by
  induction l generalizing b with
  | nil => simp
  | cons a l ih => simp only [List.foldl_cons, List.any_cons, ih, h]; cases b <;> simp

/-- `PriorityLock._wake_up_first` (the Python source) is the model's `wakeUpFirst`, in every state -/
theorem wakeUpFirst_eq (s : State) (k : Nat) : Gen.lockWakeUpFirst s k = .ok (s.wakeUpFirst k) := by
  unfold Gen.lockWakeUpFirst State.wakeUpFirst
  try rw [foldl_any _ (fun x => x.fut.done) (by intro a x; cases a <;> cases h : x.fut.done <;> simp [futDone, h])]
  simp only [waitersOf, pqPeek, futSetResult, Bool.false_or, List.any_map, Function.comp_def, futDone]
  cases hw : (s.locks k).waiters with
  | nil => simp [headW]
  | cons w ws =>
    simp only [List.isEmpty_cons, Bool.false_eq_true, if_false]
    by_cases ha : (w :: ws).any (fun x => x.fut.done) = true
    · simp only [ha, if_true]
    · simp only [ha, Bool.false_eq_true, if_false]
      cases hh : headW (w :: ws) with
      | none => exact absurd (headW_none _ hh) (by simp)
      | some h => rfl

/-- ghost: the model's `owns` list is updated together with `_take_lock` / `release` -/
def noteOwned (s : State) (t k : Nat) : State := s.setTask t { s.tasks t with owns := k :: (s.tasks t).owns }
def noteReleased (s : State) (t k : Nat) : State :=
  s.setTask t { s.tasks t with owns := (s.tasks t).owns.erase k }

/-- `PriorityLock._take_lock`: on a lock without owner it is the model's `takeLock` -/
theorem takeLock_eq (s : State) (k i : Nat) (ho : (s.locks k).owner = none) :
    Gen.lockTakeLock (noteOwned s i k) k i = .ok (s.takeLock k i) := by
  unfold Gen.lockTakeLock
  have h1 : lockOwning (noteOwned s i k) k = none := by simp [lockOwning, noteOwned, ho]
  simp only [h1, Gen.taskAddOwnedLock]
  by_cases hp : (s.tasks i).prio.isSome = true
  · have : isPrio (setOwning (noteOwned s i k) k (some i)) i = true := by
      simp [isPrio, setOwning, noteOwned, hp]
    simp only [this, if_true]
    congr 1
    apply state_ext <;> try rfl
    · funext j; by_cases c : j = i <;> simp [State.takeLock, setLocked, holdingAdd, setOwning, noteOwned, c, hp]
    · funext j; by_cases c : j = k <;> simp [State.takeLock, setLocked, holdingAdd, setOwning, noteOwned, c]
  · have : isPrio (setOwning (noteOwned s i k) k (some i)) i = false := by
      simp [isPrio, setOwning, noteOwned]; simpa using hp
    simp only [this, Bool.false_eq_true, if_false]
    congr 1
    apply state_ext <;> try rfl
    · funext j; by_cases c : j = i <;> simp [State.takeLock, setLocked, setOwning, noteOwned, c, hp]
    · funext j; by_cases c : j = k <;> simp [State.takeLock, setLocked, setOwning, noteOwned, c]

/-- ... and on a lock that has an owner it refuses without touching anything -/
theorem takeLock_refused (s : State) (k i o : Nat) (ho : (s.locks k).owner = some o) :
    Gen.lockTakeLock s k i = .error (.assertion, s) := by
  simp [Gen.lockTakeLock, lockOwning, ho]

/-- `PriorityLock.release` by the owner is the model's `Ev.release` -/
theorem release_eq (s : State) (hp : PlainHoldNothing s) (k i : Nat) (hc : s.cur = some i)
    (ho : (s.locks k).owner = some i) (hl : (s.locks k).locked = true) :
    Gen.lockRelease (noteReleased s i k) k = .ok (s.doRelease i k) := by
  unfold Gen.lockRelease
  have h1 : lockLocked (noteReleased s i k) k = true := by simp [lockLocked, noteReleased, hl]
  have h2 : currentTask (noteReleased s i k) = some i := by simp [currentTask, noteReleased, hc]
  have h3 : lockOwning (noteReleased s i k) k = some i := by simp [lockOwning, noteReleased, ho]
  simp only [h1, h2, h3, if_true, Gen.taskRemoveOwnedLock, wakeUpFirst_eq]
  rw [doRelease_eq]
  by_cases hpi : (s.tasks i).prio.isSome = true
  · have : isPrio (setOwning (noteReleased s i k) k none) i = true := by
      simp [isPrio, setOwning, noteReleased, hpi]
    simp only [this, if_true]
    congr 2
    apply state_ext <;> try rfl
    · funext j; by_cases c : j = i <;> simp [released, setLocked, holdingRemove, setOwning, noteReleased, c]
    · funext j; by_cases c : j = k <;> simp [released, setLocked, holdingRemove, setOwning, noteReleased, c]
  · have hn : (s.tasks i).prio = none := by cases h : (s.tasks i).prio <;> simp [h] at hpi ⊢
    have : isPrio (setOwning (noteReleased s i k) k none) i = false := by
      simp [isPrio, setOwning, noteReleased, hn]
    simp only [this, Bool.false_eq_true, if_false]
    congr 2
    apply state_ext <;> try rfl
    · funext j; by_cases c : j = i <;> simp [released, setLocked, setOwning, noteReleased, c, hp i hn]
    · funext j; by_cases c : j = k <;> simp [released, setLocked, setOwning, noteReleased, c]

/-- `release()` by a task that is not the owner (`Ev.badRelease`), or of a free lock, is refused and the
    state at the raise is the state before the call -/
theorem release_refused (s : State) (k i : Nat) (hc : s.cur = some i)
    (hinv : (s.locks k).locked = (s.locks k).owner.isSome) (hne : (s.locks k).owner ≠ some i) :
    ∃ e, Gen.lockRelease s k = .error (e, s) := by
  unfold Gen.lockRelease
  simp only [lockLocked, currentTask, hc, lockOwning]
  cases ho : (s.locks k).owner with
  | none =>
    have : (s.locks k).locked = false := by rw [hinv, ho]; rfl
    exact ⟨.notAcquired, by simp [this]⟩
  | some o =>
    have : (s.locks k).locked = true := by rw [hinv, ho]; rfl
    have hoi : o ≠ i := by intro e; exact hne (by rw [ho, e])
    exact ⟨.assertion, by simp [this, hoi]⟩

end Asynkit.GenEqLock

namespace Asynkit.GenEqLock
open Asynkit Asynkit.Lock Asynkit.PrioGraph

/-! ### `acquire`, first segment: entry → `await fut` / `return True` -/

theorem setWaitingOn_ok (s : State) (i k : Nat) (hw : (s.tasks i).waitingOn = none) :
    Gen.taskSetWaitingOn s i (some k) = .ok (setWaitingOn s i (some k)) := by
  simp [Gen.taskSetWaitingOn, waitingOnOf, hw]

theorem clearWaitingOn_ok (s : State) (i k : Nat) (hw : (s.tasks i).waitingOn = some k) :
    Gen.taskSetWaitingOn s i none = .ok (setWaitingOn s i none) := by
  simp [Gen.taskSetWaitingOn, waitingOnOf, hw]

theorem newWaiters_noop (s : State) (k : Nat) (h : (s.locks k).waiters = []) : newWaiters s k = s := by
  have : ({ s.locks k with waiters := [] } : LockSt) = s.locks k := by
    cases hh : s.locks k; simp_all
  simp only [newWaiters, this, setLock_self]

theorem appended_prio (s : State) (i k : Nat) (hp : isPrio s i = true) :
    pqAdd (setWaitingOn s i (some k)) k (s.eff i) i = appended s i k := by
  have hp' : (s.tasks i).prio.isSome = true := hp
  apply state_ext <;> try rfl
  · funext j; by_cases c : j = i <;> simp [pqAdd, setWaitingOn, appended, c, hp']
  · funext j; by_cases c : j = k
    · subst c
      simp only [pqAdd, setWaitingOn, appended, setLock_locks, if_true, setTask_locks, hp', if_true]
      congr 3
      rw [eff_setWaitingOn s i i]
    · simp [pqAdd, setWaitingOn, appended, c]

theorem appended_plain (s : State) (i k : Nat) (hp : isPrio s i = false) (hw : (s.tasks i).waitingOn = none) :
    pqAdd s k (s.eff i) i = appended s i k := by
  have hp' : (s.tasks i).prio.isSome = false := hp
  apply state_ext <;> try rfl
  · funext j; by_cases c : j = i
    · subst c; simp [pqAdd, appended, hp']
      cases h : s.tasks j; simp_all
    · simp [pqAdd, appended, c]
  · funext j; by_cases c : j = k
    · subst c
      simp only [pqAdd, appended, setLock_locks, if_true, setTask_locks]
      congr 3
      rw [eff_setWaitingOn s i i]
    · simp [pqAdd, appended, c]

theorem plain_appended {s : State} (h : PlainHoldNothing s) (i k : Nat) : PlainHoldNothing (appended s i k) := by
  intro j hj
  by_cases c : j = i
  · subst c; simp [appended] at hj ⊢; exact h j hj
  · simp [appended, c] at hj ⊢; exact h j hj

theorem lockOwning_appended (s : State) (i k : Nat) : lockOwning (appended s i k) k = (s.locks k).owner := by
  simp [lockOwning, appended]

theorem isPrio_appended (s : State) (i k o : Nat) : isPrio (appended s i k) o = isPrio s o := by
  by_cases c : o = i <;> simp [isPrio, appended, c]

theorem propT_plain (s : State) (f o : Nat) (h : isPrio s o = false) : propT s f o = s := by
  have hn : (s.tasks o).prio.isNone = true := by
    simp only [isPrio] at h; cases hh : (s.tasks o).prio <;> simp [hh] at h ⊢
  cases f with
  | zero => rfl
  | succ f' => simp [propT, hn]

/-- the model's kernel bookkeeping when `Task.__step` sees the future yielded by `await fut`:
    the task is blocked, suspended inside `acquire(k)`, and nothing runs -/
theorem queuedState_def (S : State) (i k : Nat) :
    queuedState S i k = { S.setTask i { S.tasks i with status := .blocked, pos := .acq k } with cur := none } := rfl

/-- **entry, fast path**: lock free and nobody queued - `acquire` returns without suspending, and the
    state is the model's (`Ev.acquire`, fast branch) -/
theorem acquireEntry_fast (s : State) (i k : Nat) (hc : s.cur = some i)
    (hl : (s.locks k).locked = false) (hw : (s.locks k).waiters = []) (ho : (s.locks k).owner = none) :
    Gen.lockAcquireEntry (noteOwned s i k) k = .ok (s.doAcquire i k, .returned) := by
  have hfast : (!(s.locks k).locked && (s.locks k).waiters.isEmpty) = true := by simp [hl, hw]
  rw [doAcquire_fast s i k hfast]
  unfold Gen.lockAcquireEntry
  have h1 : currentTask (noteOwned s i k) = some i := by simp [currentTask, noteOwned, hc]
  have h2 : lockLocked (noteOwned s i k) k = false := by simp [lockLocked, noteOwned, hl]
  have h3 : (waitersOf (noteOwned s i k) k).isEmpty = true := by simp [waitersOf, noteOwned, hw]
  simp only [h1, h2, h3, Bool.false_eq_true, if_false, if_true, takeLock_eq s k i ho]

/-- **entry, queueing path**: the state at the `await fut` is the model's state after `Ev.acquire`
    (slow branch) up to the kernel's bookkeeping of the suspension, and the locals kept across the
    `await` are the lock, the task and whether the task is a PriorityTask -/
theorem acquireEntry_slow (s : State) (hp : PlainHoldNothing s) (i k : Nat) (hc : s.cur = some i)
    (hslow : ¬ (!(s.locks k).locked && (s.locks k).waiters.isEmpty) = true)
    (hwo : (s.tasks i).waitingOn = none) :
    ∃ S, Gen.lockAcquireEntry s k = .ok (S, .suspended k (isPrio s i) k i i i) ∧
      queuedState S i k = s.doAcquire i k := by
  rw [doAcquire_slow s i k hslow]
  refine ⟨walk (appended s i k) (s.locks k).owner, ?_, rfl⟩
  unfold Gen.lockAcquireEntry
  have he : (if isPrio s i then Gen.taskEffectivePriority s s.fuel i else 0) = s.eff i := eff_eq_state s hp i
  have tailP : ∀ o, isPrio s o = true →
      Gen.taskPropagatePriority (appended s i k).fuel (appended s i k) o k =
        .ok (walk (appended s i k) (some o)) := by
    intro o hpo
    exact (prop_eq (appended s i k).fuel _ (plain_appended hp i k)).1 o k (by rw [isPrio_appended]; exact hpo)
  have tailN : ∀ o, isPrio s o = false → walk (appended s i k) (some o) = appended s i k := by
    intro o hpo
    exact propT_plain (appended s i k) (appended s i k).fuel o (by rw [isPrio_appended]; exact hpo)
  by_cases hpi : isPrio s i = true
  · have hset := setWaitingOn_ok s i k hwo
    have happ := appended_prio s i k hpi
    have he' : Gen.taskEffectivePriority s s.fuel i = s.eff i := by simpa [hpi] using he
    by_cases hl : (s.locks k).locked = true <;> by_cases hw : (s.locks k).waiters.isEmpty = true
    all_goals
      first
      | (exfalso; apply hslow; simp only [hw, Bool.and_true]; simpa using hl)
      | skip
    all_goals
      (try have hnw := newWaiters_noop s k (List.isEmpty_iff.mp hw))
      simp only [currentTask, hc, lockLocked, hl, waitersOf, hw, if_true,
        Bool.false_eq_true, if_false, hpi, he', hset, happ, *]
    all_goals
      simp only [lockOwning_appended]
      cases ho : (s.locks k).owner with
      | none => simp only [walk]
      | some o =>
        simp only [isPrio_appended, walk]
        by_cases hpo : isPrio s o = true
        · have h1 := tailP o hpo
          simp only [walk] at h1
          simp only [hpo, if_true, h1]
        · have hpo' : isPrio s o = false := by simpa using hpo
          have h2 := tailN o hpo'
          simp only [walk] at h2
          simp only [hpo', Bool.false_eq_true, if_false, h2]
  · have hpi' : isPrio s i = false := by simpa using hpi
    have happ := appended_plain s i k hpi' hwo
    have he' : (0 : Rat) = s.eff i := by simpa [hpi'] using he
    by_cases hl : (s.locks k).locked = true <;> by_cases hw : (s.locks k).waiters.isEmpty = true
    all_goals
      first
      | (exfalso; apply hslow; simp only [hw, Bool.and_true]; simpa using hl)
      | skip
    all_goals
      (try have hnw := newWaiters_noop s k (List.isEmpty_iff.mp hw))
      simp only [currentTask, hc, lockLocked, hl, waitersOf, hw, if_true,
        Bool.false_eq_true, if_false, hpi', he', happ, *]
    all_goals
      simp only [lockOwning_appended]
      cases ho : (s.locks k).owner with
      | none => simp only [walk]
      | some o =>
        simp only [isPrio_appended, walk]
        by_cases hpo : isPrio s o = true
        · have h1 := tailP o hpo
          simp only [walk] at h1
          simp only [hpo, if_true, h1]
        · have hpo' : isPrio s o = false := by simpa using hpo
          have h2 := tailN o hpo'
          simp only [walk] at h2
          simp only [hpo', Bool.false_eq_true, if_false, h2]

end Asynkit.GenEqLock

namespace Asynkit.GenEqLock
open Asynkit Asynkit.Lock Asynkit.PrioGraph

/-! ### `acquire`, resumed at `await fut` -/

/-- the kernel's part of `Ev.resume`: the loop pops the task's handle, `Task.__step` resumes the coroutine -/
def kernelResume (s : State) (i : Nat) : State :=
  { s.setTask i { s.tasks i with status := .running, mustCancel := false, rkey := none } with cur := some i }

/-- model bookkeeping when the coroutine leaves `acquire`: it is not suspended inside it any more -/
def leaveAcquire (S : State) (i : Nat) : State := S.setTask i { S.tasks i with pos := .top }

/-- the model clears `pos` and `_waiting_on` *before* the wake-up / propagation of the `finally` clause,
    Python clears `_waiting_on` after it (on leaving the `with` block); `upd` is that early clearing and
    the lemmas below show that it commutes with everything the `finally` clause does -/
def upd (S : State) (i : Nat) : State := S.setTask i { S.tasks i with pos := .top, waitingOn := none }

theorem upd_eff (S : State) (i j : Nat) : (upd S i).eff j = S.eff j := by
  apply eff_eq_of_graph
  · apply graph_eq_of
    · intro t; by_cases c : t = i <;> simp [upd, c]
    · intro t; by_cases c : t = i <;> simp [upd, c]
    · intro l; rfl
  · rfl

theorem upd_setTask_ne (S : State) (i o : Nat) (t : Task) (h : o ≠ i) :
    (upd S i).setTask o t = upd (S.setTask o t) i := by
  apply state_ext <;> try rfl
  funext j
  by_cases c1 : j = i <;> by_cases c2 : j = o <;> simp [upd, c1, c2, h]
  · subst c1; exact absurd c2.symm h
  · subst c1; simp [Ne.symm h]

theorem upd_setLock (S : State) (i k : Nat) (l : LockSt) : (upd S i).setLock k l = upd (S.setLock k l) i := by
  apply state_ext <;> rfl

mutual
theorem upd_propT (i : Nat) : ∀ (f : Nat) (S : State) (o : Nat), (S.tasks i).status.runnable = true →
    propT (upd S i) f o = upd (propT S f o) i
  | 0, S, o, _ => by simp [propT]
  | f + 1, S, o, hr => by
    have hpl : (upd S i).prioLoop = S.prioLoop := rfl
    by_cases c : o = i
    · subst c
      have h1 : ((upd S o).tasks o).prio = (S.tasks o).prio := by simp [upd]
      have h2 : ((upd S o).tasks o).status = (S.tasks o).status := by simp [upd]
      have h3 : ((upd S o).tasks o).rkey = (S.tasks o).rkey := by simp [upd]
      simp only [propT, h1, h2, h3, hr, if_true, upd_eff, hpl]
      by_cases hn : (S.tasks o).prio.isNone = true
      · simp only [hn, if_true]
      · simp only [hn, Bool.false_eq_true, if_false]
        by_cases hk : (S.prioLoop && (S.tasks o).rkey.isSome) = true
        · simp only [hk, if_true]
          apply state_ext <;> try rfl
          funext j; by_cases c : j = o <;> simp [upd, c]
        · simp only [hk, Bool.false_eq_true, if_false]
    · have ht : (upd S i).tasks o = S.tasks o := by simp [upd, c]
      simp only [propT, ht, upd_eff, hpl]
      by_cases hn : (S.tasks o).prio.isNone = true
      · simp only [hn, if_true]
      · simp only [hn, Bool.false_eq_true, if_false]
        by_cases hru : (S.tasks o).status.runnable = true
        · simp only [hru, if_true]
          by_cases hk : (S.prioLoop && (S.tasks o).rkey.isSome) = true
          · simp only [hk, if_true]; exact upd_setTask_ne S i o _ c
          · simp only [hk, Bool.false_eq_true, if_false]
        · simp only [hru, Bool.false_eq_true, if_false]
          cases hw : (S.tasks o).waitingOn with
          | none => rfl
          | some k1 => exact upd_propL i f S k1 o hr
theorem upd_propL (i : Nat) : ∀ (f : Nat) (S : State) (k from_ : Nat), (S.tasks i).status.runnable = true →
    propL (upd S i) f k from_ = upd (propL S f k from_) i
  | 0, S, k, from_, _ => by simp [propL]
  | f + 1, S, k, from_, hr => by
    have hl : (upd S i).locks = S.locks := rfl
    simp only [propL, hl]
    split
    · rename_i o _
      rw [upd_propT i f S o hr]
      simp only [upd_eff]
      exact upd_setLock _ i k _
    · simp only [upd_eff]
      exact upd_setLock _ i k _
end

theorem upd_wakeUpFirst (S : State) (i k : Nat) (hr : (S.tasks i).status = .running) :
    (upd S i).wakeUpFirst k = upd (S.wakeUpFirst k) i := by
  have hl : (upd S i).locks = S.locks := rfl
  unfold State.wakeUpFirst
  simp only [hl]
  split
  · rfl
  · split
    · rfl
    · rename_i w _
      by_cases c : w.task = i
      · have h1 : (((upd S i).setLock k { S.locks k with waiters := setFutOf (S.locks k).waiters w.task .result }).tasks w.task).status = .running := by
          simp [upd, c, hr]
        have h2 : ((S.setLock k { S.locks k with waiters := setFutOf (S.locks k).waiters w.task .result }).tasks w.task).status = .running := by
          simp [c, hr]
        simp only [h1, h2]
        simp only [show (Status.running = Status.blocked) = False by simp, if_false]
        exact upd_setLock S i k _
      · have h1 : (((upd S i).setLock k { S.locks k with waiters := setFutOf (S.locks k).waiters w.task .result }).tasks w.task) = S.tasks w.task := by
          simp [upd, c]
        have h2 : ((S.setLock k { S.locks k with waiters := setFutOf (S.locks k).waiters w.task .result }).tasks w.task) = S.tasks w.task := by
          simp
        simp only [h1, h2]
        split
        · simp only [State.enqueue]
          rw [upd_setLock]
          have he : (upd (S.setLock k { S.locks k with waiters := setFutOf (S.locks k).waiters w.task .result }) i).eff w.task =
              (S.setLock k { S.locks k with waiters := setFutOf (S.locks k).waiters w.task .result }).eff w.task := upd_eff _ _ _
          have ht : (upd (S.setLock k { S.locks k with waiters := setFutOf (S.locks k).waiters w.task .result }) i).tasks w.task = S.tasks w.task := by
            simp [upd, c]
          have hp : (upd (S.setLock k { S.locks k with waiters := setFutOf (S.locks k).waiters w.task .result }) i).prioLoop =
              (S.setLock k { S.locks k with waiters := setFutOf (S.locks k).waiters w.task .result }).prioLoop := rfl
          rw [he, ht, hp]
          have ht2 : (S.setLock k { S.locks k with waiters := setFutOf (S.locks k).waiters w.task .result }).tasks w.task = S.tasks w.task := by simp
          rw [ht2]
          exact upd_setTask_ne _ i w.task _ c
        · exact upd_setLock S i k _

end Asynkit.GenEqLock

namespace Asynkit.GenEqLock
open Asynkit Asynkit.Lock Asynkit.PrioGraph

/-- the queue entry of `i` removed from the state in which the kernel resumed `i` -/
def T (s : State) (i k : Nat) : State := pqRemove (kernelResume s i) k i

theorem rs1_eq (s : State) (i k : Nat) : rs1 s i k = upd (T s i k) i := by
  apply state_ext <;> try rfl
  funext j; by_cases c : j = i <;> simp [rs1, upd, T, pqRemove, kernelResume, c]

theorem leave_clear (Y : State) (i : Nat) : leaveAcquire (setWaitingOn Y i none) i = upd Y i := by
  apply state_ext <;> try rfl
  funext j; by_cases c : j = i <;> simp [leaveAcquire, setWaitingOn, upd, c]

theorem leave_plain (Y : State) (i : Nat) (h : (Y.tasks i).waitingOn = none) : leaveAcquire Y i = upd Y i := by
  apply state_ext <;> try rfl
  funext j; by_cases c : j = i
  · subst c; simp [leaveAcquire, upd, h.symm]
  · simp [leaveAcquire, upd, c]

/-- **resumed by the future's result**: `_take_lock`, the `finally` clause (the waiter leaves the
    queue; the lock is locked and owned by the task itself, so nothing is woken or propagated), the exit
    of `_waiting_on`, `return True` - is the model's `Ev.resume` of a waiter that was handed the lock -/
theorem acquireResumeValue_eq (s : State) (i k : Nat) (ho : (s.locks k).owner = none)
    (hw : (s.tasks i).waitingOn = if isPrio s i then some k else none) :
    ∃ R, Gen.lockAcquireResumeValue (noteOwned (kernelResume s i) i k) k (isPrio s i) k i i i = .ok R ∧
      leaveAcquire R i = (rs1 s i k).takeLock k i := by
  unfold Gen.lockAcquireResumeValue
  have hko : ((kernelResume s i).locks k).owner = none := ho
  rw [takeLock_eq (kernelResume s i) k i hko]
  have hlocked : lockLocked (pqRemove ((kernelResume s i).takeLock k i) k i) k = true := by
    simp [lockLocked, pqRemove, State.takeLock]
  have howner : lockOwning (pqRemove ((kernelResume s i).takeLock k i) k i) k = some i := by
    simp [lockOwning, pqRemove, State.takeLock]
  have hprio : isPrio (pqRemove ((kernelResume s i).takeLock k i) k i) i = isPrio s i := by
    simp [isPrio, pqRemove, State.takeLock, kernelResume]
  simp only [hlocked, if_true, howner, hprio]
  by_cases hp : isPrio s i = true
  · rw [hp] at hw
    have hwo : ((pqRemove ((kernelResume s i).takeLock k i) k i).tasks i).waitingOn = some k := by
      simp [pqRemove, State.takeLock, kernelResume, hw]
    simp only [hp, if_true, clearWaitingOn_ok _ i k hwo]
    refine ⟨_, rfl, ?_⟩
    have hp' : (s.tasks i).prio.isSome = true := hp
    apply state_ext <;> try rfl
    · funext j; by_cases c : j = i <;>
        simp [leaveAcquire, setWaitingOn, pqRemove, State.takeLock, kernelResume, rs1, c, hp']
    · funext j; by_cases c : j = k <;>
        simp [leaveAcquire, setWaitingOn, pqRemove, State.takeLock, kernelResume, rs1, c]
  · have hp' : isPrio s i = false := by simpa using hp
    rw [hp'] at hw
    simp only [hp', Bool.false_eq_true, if_false]
    refine ⟨_, rfl, ?_⟩
    have hp'' : (s.tasks i).prio.isSome = false := hp'
    have hw' : (s.tasks i).waitingOn = none := by simpa using hw
    apply state_ext <;> try rfl
    · funext j; by_cases c : j = i <;>
        simp [leaveAcquire, pqRemove, State.takeLock, kernelResume, rs1, c, hp'', hw']
    · funext j; by_cases c : j = k <;>
        simp [leaveAcquire, pqRemove, State.takeLock, kernelResume, rs1, c]

/-- the model's `Ev.resume` of a waiter that is resumed by an exception -/
def modelResumeThrow (s : State) (i k : Nat) : State :=
  if ((rs1 s i k).locks k).locked then
    (match ((rs1 s i k).locks k).owner with
     | some o => propT (rs1 s i k) (rs1 s i k).fuel o
     | none => rs1 s i k)
  else (rs1 s i k).wakeUpFirst k

theorem doResume_acq_exc (s : State) (i k : Nat) (hp : (s.tasks i).pos = .acq k)
    (hx : resumeExc (s.tasks i) = true) : s.doResume i = modelResumeThrow s i k := by
  have : s.doResume i =
      (let s2 := if resumeExc (s.tasks i) then rs1 s i k else (rs1 s i k).takeLock k i
       if (s2.locks k).locked then
         (if resumeExc (s.tasks i) then
            (match (s2.locks k).owner with | some o => propT s2 s2.fuel o | none => s2) else s2)
       else s2.wakeUpFirst k) := by
    simp only [State.doResume, hp]; rfl
  rw [this]
  simp only [hx, if_true, modelResumeThrow]

/-- **resumed by an exception** (cancellation, `task_throw`, `task_interrupt`, any exception): the
    `finally` clause - the waiter leaves the queue; a free lock is passed on (`_wake_up_first`), a lock
    held by another task has its owner re-keyed (`propagate_priority`) - and the exit of `_waiting_on`
    are the model's `Ev.resume` of a waiter with an exception pending.  (Then the exception propagates.) -/
theorem acquireResumeThrow_eq (s : State) (hpl : PlainHoldNothing s) (i k : Nat)
    (hno : (s.locks k).owner ≠ some i)
    (hw : (s.tasks i).waitingOn = if isPrio s i then some k else none) :
    ∃ R, Gen.lockAcquireResumeThrow (kernelResume s i) k (isPrio s i) k i i i = .ok R ∧
      leaveAcquire R i = modelResumeThrow s i k := by
  have hrun : ((T s i k).tasks i).status = .running := by simp [T, pqRemove, kernelResume]
  have hrunnable : ((T s i k).tasks i).status.runnable = true := by rw [hrun]; rfl
  have hpT : ∀ o, isPrio (T s i k) o = isPrio s o := by
    intro o; by_cases c : o = i <;> simp [isPrio, T, pqRemove, kernelResume, c]
  have hpU : ∀ o, isPrio (upd (T s i k) i) o = isPrio s o := by
    intro o; by_cases c : o = i <;> simp [isPrio, upd, T, pqRemove, kernelResume, c]
  have hplT : PlainHoldNothing (T s i k) := by
    intro j hj
    by_cases c : j = i
    · subst c; simp [T, pqRemove, kernelResume] at hj ⊢; exact hpl j hj
    · simp [T, pqRemove, kernelResume, c] at hj ⊢; exact hpl j hj
  unfold Gen.lockAcquireResumeThrow modelResumeThrow
  rw [rs1_eq]
  have hlk : (upd (T s i k) i).locks k = (T s i k).locks k := rfl
  have hfl : (upd (T s i k) i).fuel = (T s i k).fuel := rfl
  have fold : pqRemove (kernelResume s i) k i = T s i k := rfl
  have hown : ((T s i k).locks k).owner = (s.locks k).owner := by simp [T, pqRemove, kernelResume]
  have hwoT : ((T s i k).tasks i).waitingOn = (s.tasks i).waitingOn := by simp [T, pqRemove, kernelResume]
  simp only [hlk, hfl, fold, lockLocked, lockOwning, hpT, wakeUpFirst_eq]
  -- facts about the three states the exit of `_waiting_on` can run in
  have hP : ∀ o, ((propT (T s i k) (T s i k).fuel o).tasks i).waitingOn = (s.tasks i).waitingOn ∧
      isPrio (propT (T s i k) (T s i k).fuel o) i = isPrio s i := by
    intro o
    have e := propT_keyEq (T s i k) (T s i k).fuel o
    exact ⟨by rw [e.waitingOn, hwoT], by rw [isPrio_keyEq e, hpT]⟩
  have hW : (((T s i k).wakeUpFirst k).tasks i).waitingOn = (s.tasks i).waitingOn ∧
      isPrio ((T s i k).wakeUpFirst k) i = isPrio s i := by
    obtain ⟨f1, _, _, _, _, f6, _⟩ := wakeUpFirst_fields (T s i k) k i
    exact ⟨by rw [f6, hwoT], by simp only [isPrio, f1]; exact hpT i⟩
  by_cases hp : isPrio s i = true
  · rw [hp] at hw
    have hc : ∀ Y : State, (Y.tasks i).waitingOn = (s.tasks i).waitingOn →
        Gen.taskSetWaitingOn Y i none = .ok (setWaitingOn Y i none) :=
      fun Y h => clearWaitingOn_ok Y i k (by rw [h, hw]; simp)
    by_cases hl : ((T s i k).locks k).locked = true
    · simp only [hl, if_true]
      cases ho : ((T s i k).locks k).owner with
      | none =>
        simp only [hp, hpT, if_true, hc _ hwoT]
        exact ⟨_, rfl, leave_clear _ i⟩
      | some o =>
        have hoi : o ≠ i := by intro e; apply hno; rw [← hown, ho, e]
        simp only [hoi, if_false]
        by_cases hpo : isPrio s o = true
        · have := (prop_eq (T s i k).fuel _ hplT).1 o k (by rw [hpT]; exact hpo)
          simp only [hpo, if_true, this, hp, (hP o).2, hc _ (hP o).1]
          refine ⟨_, rfl, ?_⟩
          rw [leave_clear, upd_propT i _ _ o hrunnable]
        · have hpo' : isPrio s o = false := by simpa using hpo
          simp only [hpo', Bool.false_eq_true, if_false, hp, hpT, if_true, hc _ hwoT]
          refine ⟨_, rfl, ?_⟩
          rw [leave_clear, propT_plain (upd (T s i k) i) _ o (by rw [hpU]; exact hpo')]
    · simp only [hl, Bool.false_eq_true, if_false, hp, hW.2, if_true, hc _ hW.1]
      refine ⟨_, rfl, ?_⟩
      rw [leave_clear, upd_wakeUpFirst _ i k hrun]
  · have hp' : isPrio s i = false := by simpa using hp
    rw [hp'] at hw
    have hw' : (s.tasks i).waitingOn = none := by simpa using hw
    by_cases hl : ((T s i k).locks k).locked = true
    · simp only [hl, if_true]
      cases ho : ((T s i k).locks k).owner with
      | none =>
        simp only [hp', Bool.false_eq_true, if_false]
        exact ⟨_, rfl, leave_plain _ i (by rw [hwoT, hw'])⟩
      | some o =>
        have hoi : o ≠ i := by intro e; apply hno; rw [← hown, ho, e]
        simp only [hoi, if_false]
        by_cases hpo : isPrio s o = true
        · have := (prop_eq (T s i k).fuel _ hplT).1 o k (by rw [hpT]; exact hpo)
          simp only [hpo, if_true, this, hp', Bool.false_eq_true, if_false]
          refine ⟨_, rfl, ?_⟩
          rw [leave_plain _ i (by rw [(hP o).1, hw']), upd_propT i _ _ o hrunnable]
        · have hpo' : isPrio s o = false := by simpa using hpo
          simp only [hpo', Bool.false_eq_true, if_false, hp']
          refine ⟨_, rfl, ?_⟩
          rw [leave_plain _ i (by rw [hwoT, hw']), propT_plain (upd (T s i k) i) _ o (by rw [hpU]; exact hpo')]
    · simp only [hl, Bool.false_eq_true, if_false, hp']
      refine ⟨_, rfl, ?_⟩
      rw [leave_plain _ i (by rw [hW.1, hw']), upd_wakeUpFirst _ i k hrun]

end Asynkit.GenEqLock

namespace Asynkit.GenEqLock
open Asynkit Asynkit.Lock Asynkit.PrioGraph

/-! ### the events of the model, in every state that satisfies the lock invariant -/

theorem waitingOn_of_inv {s : State} (h : Inv s) (i k : Nat) (hp : (s.tasks i).pos = .acq k) :
    (s.tasks i).waitingOn = if isPrio s i then some k else none := by
  by_cases hpi : isPrio s i = true
  · simp only [hpi, if_true]; exact (h.waitingPos i k).mpr ⟨hpi, hp⟩
  · have hpi' : isPrio s i = false := by simpa using hpi
    simp only [hpi', Bool.false_eq_true, if_false]
    cases hw : (s.tasks i).waitingOn with
    | none => rfl
    | some k' => exact absurd ((h.waitingPos i k').mp hw).1 (by simpa [isPrio] using hpi)

theorem waitingOn_running {s : State} (h : Inv s) (i : Nat) (hc : s.cur = some i) :
    (s.tasks i).waitingOn = none := by
  have htop := h.runningTop i ((h.curRunning i).mp hc)
  cases hw : (s.tasks i).waitingOn with
  | none => rfl
  | some k' => have := ((h.waitingPos i k').mp hw).2; rw [htop] at this; cases this

/-- `Ev.release k` is `PriorityLock.release()` called by the owner -/
theorem ev_release {s : State} (h : Inv s) (k : Nat) (he : (Ev.release k).enabled s = true) :
    ∃ i, s.cur = some i ∧ Gen.lockRelease (noteReleased s i k) k = .ok (s.apply (.release k)) := by
  simp only [Ev.enabled] at he
  cases hc : s.cur with
  | none => simp [hc] at he
  | some i =>
    simp only [hc, beq_iff_eq] at he
    refine ⟨i, rfl, ?_⟩
    have hl : (s.locks k).locked = true := by rw [(h.linv k).lockedOwner, he]; rfl
    simp only [State.apply, hc]
    exact release_eq s (Inv.plain h) k i hc he hl

/-- `Ev.badRelease k` is `PriorityLock.release()` called by a task that does not hold the lock: the call
    raises and the state at the raise is the state before the call -/
theorem ev_badRelease {s : State} (h : Inv s) (k : Nat) (he : (Ev.badRelease k).enabled s = true) :
    (∃ e, Gen.lockRelease s k = .error (e, s)) ∧ s.apply (.badRelease k) = s := by
  simp only [Ev.enabled] at he
  cases hc : s.cur with
  | none => simp [hc] at he
  | some i =>
    simp only [hc, bne_iff_ne, ne_eq] at he
    exact ⟨release_refused s k i hc (h.linv k).lockedOwner he, rfl⟩

/-- `Ev.acquire k` is the first segment of `PriorityLock.acquire()`: either it returns at once (lock
    free, nobody queued) or it suspends at `await fut`; in both cases the state is the model's -/
theorem ev_acquire {s : State} (h : Inv s) (k : Nat) (he : (Ev.acquire k).enabled s = true) :
    ∃ i, s.cur = some i ∧
      ((Gen.lockAcquireEntry (noteOwned s i k) k = .ok (s.apply (.acquire k), .returned)) ∨
       (∃ S, Gen.lockAcquireEntry s k = .ok (S, .suspended k (isPrio s i) k i i i) ∧
          queuedState S i k = s.apply (.acquire k))) := by
  simp only [Ev.enabled] at he
  cases hc : s.cur with
  | none => simp [hc] at he
  | some i =>
    refine ⟨i, rfl, ?_⟩
    simp only [State.apply, hc]
    by_cases hf : (!(s.locks k).locked && (s.locks k).waiters.isEmpty) = true
    · left
      simp only [Bool.and_eq_true, Bool.not_eq_true', List.isEmpty_iff] at hf
      have ho : (s.locks k).owner = none := by
        have := (h.linv k).lockedOwner; rw [hf.1] at this
        cases ho : (s.locks k).owner with
        | none => rfl
        | some o => rw [ho] at this; cases this
      exact acquireEntry_fast s i k hc hf.1 hf.2 ho
    · right
      exact acquireEntry_slow s (Inv.plain h) i k hc hf (waitingOn_running h i hc)

/-- `Ev.resume i` of a task suspended at `await fut` of `acquire(k)` is the rest of the coroutine:
    resumed by the future's result when no exception is pending, by an exception otherwise.
    (That the task does not hold the lock it waits for is `Inv.waitNotOwn`.) -/
theorem ev_resume_acquire {s : State} (h : Inv s) (i k : Nat) (he : (Ev.resume i).enabled s = true)
    (hp : (s.tasks i).pos = .acq k) :
    (resumeExc (s.tasks i) = false →
      ∃ R, Gen.lockAcquireResumeValue (noteOwned (kernelResume s i) i k) k (isPrio s i) k i i i = .ok R ∧
        leaveAcquire R i = s.apply (.resume i)) ∧
    (resumeExc (s.tasks i) = true →
      ∃ R, Gen.lockAcquireResumeThrow (kernelResume s i) k (isPrio s i) k i i i = .ok R ∧
        leaveAcquire R i = s.apply (.resume i)) := by
  have hw := waitingOn_of_inv h i k hp
  have hno : (s.locks k).owner ≠ some i :=
    fun e => h.waitNotOwn i k hp (((h.linv k).ownerOwns i).mp e)
  constructor
  · intro hx
    simp only [State.apply, doResume_acq_noexc s i k hp hx]
    -- the waiter was woken by a result: the lock has no owner
    have hk := h.linv k
    obtain ⟨p, hp', e1⟩ := hk.queued i hp
    have hwok := (hk.wok p hp').2
    rw [e1] at hwok
    have hres : p.2 = .result := by
      simp only [resumeExc, Bool.or_eq_false_iff] at hx
      cases hs : (s.tasks i).status with
      | woken c => rw [hs] at hwok hx; simp only [WOK] at hwok; simp at hx; rw [hx.2] at hwok; simpa using hwok
      | ready x => rw [hs] at hwok hx; simp only [WOK] at hwok; simp at hx; rw [hx.2] at hwok; cases hwok
      | blocked => simp [Ev.enabled, hs] at he
      | running => simp [Ev.enabled, hs] at he
      | done => simp [Ev.enabled, hs] at he
    have hfree : (s.locks k).locked = false := by
      cases hl : (s.locks k).locked with
      | false => rfl
      | true => exact absurd hres (hk.lockedNoResult hl p hp')
    have ho : (s.locks k).owner = none := by
      have := hk.lockedOwner; rw [hfree] at this
      cases ho : (s.locks k).owner with
      | none => rfl
      | some o => rw [ho] at this; cases this
    exact acquireResumeValue_eq s i k ho hw
  · intro hx
    simp only [State.apply, doResume_acq_exc s i k hp hx]
    exact acquireResumeThrow_eq s (Inv.plain h) i k hno hw

end Asynkit.GenEqLock

namespace Asynkit.GenEqLock
open Asynkit Asynkit.Lock

/-- ... hence in every reachable state, without side condition -/
theorem reachable_resume_acquire {s : State} (hr : Reachable s) (i k : Nat)
    (he : (Ev.resume i).enabled s = true) (hp : (s.tasks i).pos = .acq k) :
    (resumeExc (s.tasks i) = false →
      ∃ R, Gen.lockAcquireResumeValue (noteOwned (kernelResume s i) i k) k (isPrio s i) k i i i = .ok R ∧
        leaveAcquire R i = s.apply (.resume i)) ∧
    (resumeExc (s.tasks i) = true →
      ∃ R, Gen.lockAcquireResumeThrow (kernelResume s i) k (isPrio s i) k i i i = .ok R ∧
        leaveAcquire R i = s.apply (.resume i)) :=
  ev_resume_acquire (reachable_inv hr) i k he hp

end Asynkit.GenEqLock
