/-
C12 `waiter_key_inv`, part 5: the queueing `acquire`.  The tasks whose effective priority changes
when a waiter is appended to lock `k` are those that have `k` below them (`Under`); they form the
chain of lock-blocked owners that `propagate_priority` walks, and each of them is re-keyed.
-/
import Asynkit.Lemmas.C12KeyInv4

namespace Asynkit.Lock
open Asynkit.PrioGraph

/-! ### what the walk does to queue entries -/

/-- entries of `B'` come from entries of `B` with the same task and future, and a key that is
    either unchanged or the effective priority (in `A`) of the task -/
def Rel (A B B' : State) : Prop :=
  ∀ k', ∀ w ∈ (B'.locks k').waiters, ∃ w0 ∈ (B.locks k').waiters,
    w0.task = w.task ∧ w0.fut = w.fut ∧ (w.key = w0.key ∨ w.key = A.eff w.task)

theorem Rel.refl (A B : State) : Rel A B B := fun _ w hw => ⟨w, hw, rfl, rfl, Or.inl rfl⟩

theorem Rel.trans {A B1 B2 B3 : State} (h1 : Rel A B1 B2) (h2 : Rel A B2 B3) : Rel A B1 B3 := by
  intro k' w hw
  obtain ⟨w1, hw1, e1, f1, c1⟩ := h2 k' w hw
  obtain ⟨w0, hw0, e0, f0, c0⟩ := h1 k' w1 hw1
  refine ⟨w0, hw0, by rw [e0, e1], by rw [f0, f1], ?_⟩
  rcases c1 with c1 | c1
  · rcases c0 with c0 | c0
    · left; rw [c1, c0]
    · right; rw [c1, c0, e1]
  · right; exact c1

theorem rel_rekey {A B : State} (e : KeyEq A B) (k i : Nat) :
    Rel A B (B.setLock k { B.locks k with waiters := rekey (B.locks k).waiters i (B.eff i) }) := by
  intro k' w hw
  by_cases c : k' = k
  · subst c
    simp only [setLock_locks, if_true, rekey, List.mem_map] at hw
    obtain ⟨v, hv, hvw⟩ := hw
    refine ⟨v, hv, ?_⟩
    by_cases d : v.task = i
    · simp [d] at hvw; subst hvw
      exact ⟨d, rfl, Or.inr (by simp [eff_keyEq e])⟩
    · simp [d] at hvw; subst hvw; exact ⟨rfl, rfl, Or.inl rfl⟩
  · simp only [setLock_locks, c, if_false] at hw
    exact ⟨w, hw, rfl, rfl, Or.inl rfl⟩

theorem rel_setRkey (A B : State) (o : Nat) (r : Option Rat) :
    Rel A B (B.setTask o { B.tasks o with rkey := r }) := fun _ w hw => ⟨w, hw, rfl, rfl, Or.inl rfl⟩

mutual
theorem rel_propT (A : State) : ∀ (f o : Nat) (B : State), KeyEq A B → Rel A B (propT B f o)
  | 0, _, B, _ => by simp only [propT]; exact Rel.refl A B
  | f + 1, o, B, e => by
    simp only [propT]
    split
    · exact Rel.refl A B
    · split
      · split
        · exact rel_setRkey A B o _
        · exact Rel.refl A B
      · split
        · exact rel_propL A f _ o B e
        · exact Rel.refl A B
theorem rel_propL (A : State) : ∀ (f k i : Nat) (B : State), KeyEq A B → Rel A B (propL B f k i)
  | 0, _, _, B, _ => by simp only [propL]; exact Rel.refl A B
  | f + 1, k, i, B, e => by
    simp only [propL]
    split
    · rename_i o _
      exact (rel_propT A f o B e).trans (rel_rekey (e.trans (propT_keyEq B f o)) k i)
    · exact rel_rekey e k i
end

/-! ### coverage: every dirty, blocked waiter is re-keyed -/

/-- the entries of task `t` in lock `kt` are keyed by `t`'s effective priority in `A` -/
def Rk (A S : State) (t kt : Nat) : Prop :=
  ∀ w ∈ (S.locks kt).waiters, w.task = t → w.key = A.eff t

/-- calling `propagate_priority` on a lock-blocked PriorityTask re-keys it where it is queued -/
theorem rk_self {A B : State} (e : KeyEq A B) {t kt : Nat}
    (hp : (A.tasks t).prio.isSome = true) (hb : (A.tasks t).status = .blocked)
    (hw : (A.tasks t).waitingOn = some kt) : ∀ f, 2 ≤ f → Rk A (propT B f t) t kt := by
  intro f hf
  obtain ⟨f', rfl⟩ : ∃ f', f = f' + 2 := ⟨f - 2, by omega⟩
  have h1 : (B.tasks t).prio.isNone = false := by
    rw [e.prio]; cases h : (A.tasks t).prio <;> simp [h] at hp ⊢
  have h2 : (B.tasks t).status.runnable = false := by rw [e.status, hb]; rfl
  have h3 : (B.tasks t).waitingOn = some kt := by rw [e.waitingOn]; exact hw
  have key : ∀ B1 : State, KeyEq A B1 →
      Rk A (B1.setLock kt { B1.locks kt with waiters := rekey (B1.locks kt).waiters t (B1.eff t) }) t kt := by
    intro B1 e1 w hw' et
    simp only [setLock_locks, if_true] at hw'
    rw [mem_rekey hw' et, eff_keyEq e1]
  simp only [propT, h1, h2, h3, Bool.false_eq_true, if_false, propL]
  split
  · exact key _ (e.trans (propT_keyEq _ _ _))
  · exact key _ e

theorem rk_preserved {A B B' : State} (r : Rel A B B') {t kt : Nat} (h : Rk A B t kt) : Rk A B' t kt := by
  intro w hw et
  obtain ⟨w0, hw0, e1, _, c⟩ := r kt w hw
  rcases c with c | c
  · rw [c]; exact h w0 hw0 (by rw [e1, et])
  · rw [c, et]

/-- `Q n x`: starting the walk at task `x` with at least `n` fuel re-keys the target `t` -/
def Q (A : State) (t kt n x : Nat) : Prop :=
  ∀ B, KeyEq A B → ∀ f, n ≤ f → Rk A (propT B f x) t kt

/-- one link of the chain: `w` is a lock-blocked PriorityTask queued on `l`, which `u` owns -/
theorem q_lift {A : State} {t kt n u w l : Nat} (hq : Q A t kt n u)
    (hp : (A.tasks w).prio.isSome = true) (hb : (A.tasks w).status = .blocked)
    (hw : (A.tasks w).waitingOn = some l) (ho : (A.locks l).owner = some u) : Q A t kt (n + 2) w := by
  intro B e f hf
  obtain ⟨f', rfl⟩ : ∃ f', f = f' + 2 := ⟨f - 2, by omega⟩
  have h1 : (B.tasks w).prio.isNone = false := by
    rw [e.prio]; cases h : (A.tasks w).prio <;> simp [h] at hp ⊢
  have h2 : (B.tasks w).status.runnable = false := by rw [e.status, hb]; rfl
  have h3 : (B.tasks w).waitingOn = some l := by rw [e.waitingOn]; exact hw
  have h4 : (B.locks l).owner = some u := by rw [e.owner]; exact ho
  simp only [propT, h1, h2, h3, Bool.false_eq_true, if_false, propL, h4]
  have inner := hq B e f' (by omega)
  exact rk_preserved (rel_rekey (e.trans (propT_keyEq B f' u)) l w) inner

end Asynkit.Lock
