/-
C11 `inherit_immediate`, part 3: the ready-key invariant over fault-free ordered executions on the
priority loop, and the rank of an ordered state.
-/
import Asynkit.Lemmas.C11Inherit2

namespace Asynkit.Lock
open Asynkit.PrioGraph

theorem wakeUpFirst_prioLoop (s : State) (k : Nat) : (s.wakeUpFirst k).prioLoop = s.prioLoop := by
  unfold State.wakeUpFirst
  simp only []
  split
  · rfl
  · split
    · rfl
    · split <;> simp [State.enqueue]

theorem apply_prioLoop_nf {N : Nat} {s : State} (hc : Clean s) (e : Ev) (he : e.enabled s = true)
    (ho : Ev.orderly N s e = true) : (s.apply e).prioLoop = s.prioLoop := by
  cases e with
  | resume i =>
    have hx := clean_resumeExc hc (resume_status he).2
    simp only [State.apply]
    by_cases hp : ∃ k, (s.tasks i).pos = .acq k
    · obtain ⟨k, hp⟩ := hp
      rw [doResume_acq_noexc s i k hp hx]; rfl
    · rw [doResume_other s i (fun k hk => hp ⟨k, hk⟩)]; rfl
  | acquire k =>
    simp only [State.apply]; split
    · rename_i i _
      by_cases hf : (!(s.locks k).locked && (s.locks k).waiters.isEmpty) = true
      · rw [doAcquire_fast s i k hf]; rfl
      · rw [doAcquire_slow s i k hf]
        show (walk (appended s i k) (s.locks k).owner).prioLoop = s.prioLoop
        rw [(walk_keyEq _ _).prioLoop]; rfl
    · rfl
  | release k =>
    simp only [State.apply]; split
    · rw [doRelease_eq, wakeUpFirst_prioLoop]; rfl
    · rfl
  | sleep => simp only [State.apply]; split <;> rfl
  | wait ev =>
    simp only [State.apply]; split
    · split <;> rfl
    · rfl
  | finish => simp only [State.apply]; split <;> rfl
  | badRelease k => rfl
  | cancel i => simp [Ev.orderly] at ho
  | throw i x => simp [Ev.orderly] at ho
  | interrupt i x => simp [Ev.orderly] at ho
  | reinsert i ps => simp [Ev.orderly] at ho
  | acquireFails k => simp [Ev.orderly] at ho
  | setEv ev => rfl

theorem eff_same_graph {s s' : State} (hl : s'.locks = s.locks) (hf : s'.fuel = s.fuel)
    (hp : ∀ i, (s'.tasks i).prio = (s.tasks i).prio)
    (hh : ∀ i, (s'.tasks i).holding = (s.tasks i).holding) (t : Nat) : s'.eff t = s.eff t :=
  eff_eq_of_graph (graph_eq_of hp hh (fun k => by rw [hl])) hf t

theorem readyStatus_woken (c : Bool) : ReadyStatus (.woken c) := Or.inl ⟨c, rfl⟩
theorem readyStatus_ready (x : Bool) : ReadyStatus (.ready x) := Or.inr ⟨x, rfl⟩

theorem rki_apply {N : Nat} {s : State} (hI : Inv s) (hc : Clean s) (hord : Ord N s) (h : RKI s)
    (hfuel : 2 * N ≤ s.fuel) (hpl : s.prioLoop = true) (e : Ev) (he : e.enabled s = true)
    (ho : Ev.orderly N s e = true) : RKI (s.apply e) := by
  cases e with
  | resume i =>
    have hst := (resume_status he).2
    have hx := clean_resumeExc hc hst
    simp only [State.apply]
    by_cases hp : ∃ k, (s.tasks i).pos = .acq k
    · obtain ⟨k, hp⟩ := hp
      rw [doResume_acq_noexc s i k hp hx]
      apply rki_of_local h
      intro t r hr
      by_cases c : t = i
      · subst c; simp [State.takeLock, rs1] at hr
      · left
        refine ⟨by simpa [State.takeLock, rs1, c] using hr, by simp [State.takeLock, rs1, c],
          eff_resume_take hI hc hp hst t c⟩
    · rw [doResume_other s i (fun k hk => hp ⟨k, hk⟩)]
      apply rki_of_local h
      intro t r hr
      by_cases c : t = i
      · subst c; simp [rs0] at hr
      · left
        refine ⟨by simpa [rs0, c] using hr, by simp [rs0, c], ?_⟩
        refine eff_same_graph (by rfl) (by rfl) ?_ ?_ _
        · intro j; by_cases c2 : j = i <;> simp [rs0, c2]
        · intro j; by_cases c2 : j = i <;> simp [rs0, c2]
  | acquire k =>
    simp only [State.apply]
    split
    · rename_i i hcur
      simp only [Ev.orderly, hcur, Bool.and_eq_true, decide_eq_true_eq, List.all_eq_true] at ho
      have hrun : (s.tasks i).status = .running := (hI.curRunning i).mp hcur
      by_cases hf : (!(s.locks k).locked && (s.locks k).waiters.isEmpty) = true
      · rw [doAcquire_fast s i k hf]
        apply rki_of_local h
        intro t r hr
        by_cases c : t = i
        · subst c
          have := h.running_none hrun
          simp [State.takeLock, this] at hr
        · left
          exact ⟨by simpa [State.takeLock, c] using hr, by simp [State.takeLock, c],
            eff_takeLock_running hI hrun t c⟩
      · rw [doAcquire_slow s i k hf]
        exact rki_acquire_slow hI hc hord h hfuel hpl hcur (fun l hl => by simpa using ho.2 l hl)
    · exact h
  | release k =>
    simp only [State.apply]
    split
    · rename_i i hcur
      have hrun : (s.tasks i).status = .running := (hI.curRunning i).mp hcur
      rw [doRelease_eq]
      apply rki_of_local h
      intro t r hr
      rcases wakeUpFirst_rkey (released s i k) k t with ⟨e1, e2⟩ | ⟨e1, e2⟩
      · by_cases c : t = i
        · subst c
          have := h.running_none hrun
          rw [e1] at hr; simp [released, this] at hr
        · left
          rw [e1] at hr
          refine ⟨by simpa [released, c] using hr, by rw [e2]; simp [released, c], ?_⟩
          rw [wakeUpFirst_eff]; exact eff_released hI hcur t c
      · right
        rcases e1 with e1 | e1
        · rw [e1] at hr; cases hr
        · rw [e1] at hr; injection hr with hr
          exact ⟨hr.symm, by rw [e2]; exact readyStatus_woken false⟩
    · exact h
  | sleep =>
    simp only [State.apply]
    split
    · rename_i i hcur
      apply rki_of_local h
      intro t r hr
      have heff : ∀ t, State.eff { s.enqueue i (.ready false) with cur := none } t = s.eff t := by
        intro t
        refine eff_same_graph (by rfl) (by rfl) ?_ ?_ _
        · intro j; by_cases c2 : j = i <;> simp [State.enqueue, c2]
        · intro j; by_cases c2 : j = i <;> simp [State.enqueue, c2]
      by_cases c : t = i
      · subst c
        right
        simp only [State.enqueue, setTask_tasks, if_true, hpl] at hr
        injection hr with hr
        exact ⟨by rw [heff, hr], by simp [State.enqueue]; exact readyStatus_ready false⟩
      · left
        exact ⟨by simpa [State.enqueue, c] using hr, by simp [State.enqueue, c], heff t⟩
    · exact h
  | wait ev =>
    simp only [State.apply]
    split
    · rename_i i hcur
      have hrun : (s.tasks i).status = .running := (hI.curRunning i).mp hcur
      split
      · exact h
      · apply rki_of_local h
        intro t r hr
        by_cases c : t = i
        · subst c
          have := h.running_none hrun
          simp [this] at hr
        · left
          refine ⟨by simpa [c] using hr, by simp [c], ?_⟩
          refine eff_same_graph (by rfl) (by rfl) ?_ ?_ _
          · intro j; by_cases c2 : j = i <;> simp [c2]
          · intro j; by_cases c2 : j = i <;> simp [c2]
    · exact h
  | finish =>
    simp only [State.apply]
    split
    · rename_i i hcur
      have hrun : (s.tasks i).status = .running := (hI.curRunning i).mp hcur
      apply rki_of_local h
      intro t r hr
      by_cases c : t = i
      · subst c
        have := h.running_none hrun
        simp [this] at hr
      · left
        refine ⟨by simpa [c] using hr, by simp [c], ?_⟩
        refine eff_same_graph (by rfl) (by rfl) ?_ ?_ _
        · intro j; by_cases c2 : j = i <;> simp [c2]
        · intro j; by_cases c2 : j = i <;> simp [c2]
    · exact h
  | badRelease k => exact h
  | cancel i => simp [Ev.orderly] at ho
  | throw i x => simp [Ev.orderly] at ho
  | interrupt i x => simp [Ev.orderly] at ho
  | reinsert i ps => simp [Ev.orderly] at ho
  | acquireFails k => simp [Ev.orderly] at ho
  | setEv ev =>
    have heff : ∀ t, (s.doSetEv ev).eff t = s.eff t := by
      intro t
      refine eff_same_graph (by rfl) (by rfl) ?_ ?_ _
      · intro j; simp only [State.doSetEv]; split <;> rfl
      · intro j; simp only [State.doSetEv]; split <;> rfl
    apply rki_of_local h
    intro t r hr
    simp only [State.apply] at hr ⊢
    by_cases c : (s.tasks t).status = .blocked ∧ (s.tasks t).pos = .evt ev
    · right
      simp only [State.doSetEv, c, decide_true, Bool.and_self, if_true, hpl] at hr
      injection hr with hr
      refine ⟨by rw [heff, hr], ?_⟩
      simp only [State.doSetEv, c, decide_true, Bool.and_self, if_true]
      exact readyStatus_woken false
    · left
      have hn : ¬ ((decide ((s.tasks t).status = .blocked) && decide ((s.tasks t).pos = .evt ev)) = true) := by
        simpa using c
      simp only [State.doSetEv, hn, Bool.false_eq_true, if_false] at hr
      exact ⟨hr, by simp only [State.doSetEv, hn, Bool.false_eq_true, if_false], heff t⟩

/-- fault-free ordered executions whose initial ready keys are sound -/
inductive ReachableNFK (N : Nat) : State → Prop
  | init {s} : Initial s → RKI s → ReachableNFK N s
  | step {s} (e : Ev) : ReachableNFK N s → e.enabled s = true → Ev.orderly N s e = true →
      ReachableNFK N (s.apply e)

theorem ReachableNFK.nf {N : Nat} {s : State} (h : ReachableNFK N s) : ReachableNF N s := by
  induction h with
  | init hi _ => exact ReachableNF.init hi
  | step e _ he ho ih => exact ReachableNF.step e ih he ho

theorem reachableNFK_rki {N : Nat} {s : State} (h : ReachableNFK N s) :
    2 * N ≤ s.fuel → s.prioLoop = true → RKI s := by
  induction h with
  | init _ hk => intro _ _; exact hk
  | @step s e hr he ho ih =>
    intro hf hpl
    have hcl := reachableNF_clean hr.nf
    rw [apply_fuel_nf hcl e he ho] at hf
    rw [apply_prioLoop_nf hcl e he ho] at hpl
    exact rki_apply (reachable_inv hr.nf.reachable) hcl (reachableNF_ord hr.nf) (ih hf hpl) hf hpl e he ho

/-! ### an ordered state is ranked -/

def rankT (N : Nat) (s : State) (t : Nat) : Nat :=
  match (s.tasks t).pos with
  | .acq k => 2 * k + 1
  | _ => 2 * N + 3

def orderedRanked {N : Nat} {s : State} (hI : Inv s) (ho : Ord N s) : Ranked s.graph where
  rT := rankT N s
  rL := fun l => 2 * l + 2
  hold := by
    intro t l hl
    have hl' : l ∈ (s.tasks t).owns := hI.holding_sub hl
    simp only [rankT]
    cases hp : (s.tasks t).pos with
    | acq k => have := ((ho t).2 k hp).2 l hl'; simp only []; omega
    | top => have := (ho t).1 l hl'; simp only []; omega
    | evt e => have := (ho t).1 l hl'; simp only []; omega
  wait := by
    intro l w hw
    obtain ⟨v, hv, ev⟩ := List.mem_map.mp hw
    have hpos := ((hI.linv l).wok (wt v) (List.mem_map_of_mem hv)).1
    simp only [wt, ev] at hpos
    simp only [rankT, hpos]; omega

theorem rankT_le (N : Nat) (s : State) (ho : Ord N s) (t : Nat) : rankT N s t ≤ 2 * N + 3 := by
  simp only [rankT]
  cases hp : (s.tasks t).pos with
  | acq k => have := ((ho t).2 k hp).1; simp only []; omega
  | top => simp only []; omega
  | evt e => simp only []; omega

end Asynkit.Lock
