/-
Invariant of the Kernel transition system and its preservation by every event (C09, C15).
-/
import Asynkit.Model.Kernel

namespace Asynkit.Kernel

/-! ### list helpers -/

theorem popLast_none {p : Handle → Bool} {l : List Handle} :
    popLast p l = none ↔ l.countP p = 0 := by
  induction l with
  | nil => simp [popLast]
  | cons x xs ih =>
    simp only [popLast]
    cases h : popLast p xs with
    | some yr =>
      have : ¬ (xs.countP p = 0) := by intro h0; rw [← ih] at h0; simp [h] at h0
      rw [List.countP_cons]
      constructor
      · intro h'; cases h'
      · intro h'; omega
    | none =>
      have h0 := ih.mp h
      by_cases hp : p x <;> simp [hp, h0]

theorem popLast_some {p : Handle → Bool} {l : List Handle} {h : Handle} {r : List Handle}
    (hs : popLast p l = some (h, r)) : p h = true ∧ l.Perm (h :: r) := by
  induction l generalizing h r with
  | nil => simp [popLast] at hs
  | cons x xs ih =>
    simp only [popLast] at hs
    cases hx : popLast p xs with
    | some yr =>
      obtain ⟨y, ys⟩ := yr
      simp [hx] at hs
      obtain ⟨rfl, rfl⟩ := hs
      have ⟨h1, h2⟩ := ih hx
      exact ⟨h1, (List.Perm.cons x h2).trans (List.Perm.swap _ _ _)⟩
    | none =>
      simp [hx] at hs
      obtain ⟨hp, rfl, rfl⟩ := hs
      exact ⟨hp, List.Perm.refl _⟩

/-- number of step / wake-up handles of task `t` in the ready queue -/
def H (s : State) (t : TaskId) : Nat := s.ready.countP (isOf t)

/-- number of times the wake-up of `t` is registered on future `f` -/
def W (s : State) (t : TaskId) (f : FutId) : Nat := (s.futs f).cbs.count (.wake t)

theorem isOf_toHandle (t : TaskId) (f : FutId) (c : Cb) :
    isOf t (toHandle f c) = (c == .wake t) := by
  cases c with
  | wake u =>
    simp only [toHandle, isOf, taskFromHandle]
    rw [Bool.eq_iff_iff]; simp
  | other k => simp [toHandle, isOf, taskFromHandle]

theorem countP_isOf_map (t : TaskId) (f : FutId) (l : List Cb) :
    (l.map (toHandle f)).countP (isOf t) = l.count (.wake t) := by
  induction l with
  | nil => rfl
  | cons c cs ih =>
    simp only [List.map_cons, List.countP_cons, ih, List.count_cons, isOf_toHandle]

theorem isOf_of_isOf {t u : TaskId} {h : Handle} (h1 : isOf t h = true) (hne : u ≠ t) :
    isOf u h = false := by
  simp [isOf] at *
  intro h2; rw [h2] at h1; simp at h1; exact hne h1

/-- The invariant of the scheduler kernel (DESIGN §6 C09 `kernel_inv`). -/
structure Inv (s : State) : Prop where
  fresh : ∀ t, s.nt ≤ t → (s.tasks t).done = true
  doneCbs : ∀ f, (s.futs f).st ≠ .pending → (s.futs f).cbs = []
  wakeFw : ∀ t f, Cb.wake t ∈ (s.futs f).cbs → (s.tasks t).futWaiter = some f
  doneT : ∀ t, (s.tasks t).done = true → H s t = 0 ∧ (s.tasks t).futWaiter = none
  cur : ∀ t, s.ctx = .inTask t →
    (s.tasks t).done = false ∧ H s t = 0 ∧ (s.tasks t).futWaiter = none
  blocked : ∀ t, (s.tasks t).done = false → s.ctx ≠ .inTask t → isBlocked s t = true →
    H s t = 0 ∧ ∀ f, (s.tasks t).futWaiter = some f → W s t f = 1
  runnable : ∀ t, (s.tasks t).done = false → s.ctx ≠ .inTask t → isBlocked s t = false →
    H s t = 1
  wakeDone : ∀ t f, Handle.wakeup t f ∈ s.ready → (s.futs f).st ≠ .pending
  noErr : s.err = false

theorem inv_init : Inv init := by
  constructor <;> simp [init, H, W, isBlocked]

/-- A task that is not blocked has no wake-up registered anywhere. -/
theorem Inv.no_reg {s : State} (hi : Inv s) {t : TaskId} (hb : isBlocked s t = false) (f : FutId) :
    Cb.wake t ∉ (s.futs f).cbs := by
  intro hm
  have h1 := hi.wakeFw t f hm
  have h2 : (s.futs f).st ≠ .pending := by
    simpa [isBlocked, h1] using hb
  have := hi.doneCbs f h2
  rw [this] at hm
  cases hm

theorem completeFut_inv {s : State} (hi : Inv s) (f : FutId) (st : FutSt) (hst : st ≠ .pending) :
    Inv (completeFut s f st) := by
  unfold completeFut
  split
  · rename_i hp
    have key : ∀ t, ((s.futs f).cbs.map (toHandle f)).countP (isOf t) = W s t f := by
      intro t; rw [countP_isOf_map]; rfl
    constructor
    · exact hi.fresh
    · intro g; simp only; split
      · simp
      · exact hi.doneCbs g
    · intro t g; simp only; split
      · simp
      · exact hi.wakeFw t g
    · intro t hd
      have ⟨h1, h2⟩ := hi.doneT t hd
      refine ⟨?_, h2⟩
      simp only [H, List.countP_append, key] at *
      have : W s t f = 0 := by
        simp only [W, List.count_eq_zero]
        intro hm; have := hi.wakeFw t f hm; rw [h2] at this; cases this
      omega
    · intro t hc
      have ⟨h0, h1, h2⟩ := hi.cur t hc
      refine ⟨h0, ?_, h2⟩
      simp only [H, List.countP_append, key] at *
      have : W s t f = 0 := by
        simp only [W, List.count_eq_zero]
        intro hm; have := hi.wakeFw t f hm; rw [h2] at this; cases this
      omega
    · intro t hd hc hb
      simp only [isBlocked] at hb
      cases hfw : (s.tasks t).futWaiter with
      | none => simp [hfw] at hb
      | some g =>
        simp only [hfw] at hb
        by_cases hg : g = f
        · subst hg; simp [hst] at hb
        · simp only [hg, if_false] at hb
          have hb0 : isBlocked s t = true := by simp [isBlocked, hfw, hb]
          have ⟨h1, h2⟩ := hi.blocked t hd hc hb0
          have h3 : W s t f = 0 := by
            simp only [W, List.count_eq_zero]
            intro hm; have := hi.wakeFw t f hm; rw [hfw] at this
            exact hg (Option.some.inj this)
          constructor
          · simp only [H, List.countP_append, key] at *; omega
          · intro g' hg'
            have : g' = g := (Option.some.inj hg').symm
            subst this
            have := h2 g' hfw
            simp only [W, hg, if_false] at *
            exact this
    · intro t hd hc hb
      by_cases hb0 : isBlocked s t = true
      · have ⟨h1, h2⟩ := hi.blocked t hd hc hb0
        simp only [isBlocked] at hb hb0
        cases hfw : (s.tasks t).futWaiter with
        | none => simp [hfw] at hb0
        | some g =>
          simp only [hfw] at hb hb0
          by_cases hg : g = f
          · subst hg
            have := h2 g hfw
            simp only [H, List.countP_append, key] at *; omega
          · simp only [hg, if_false] at hb
            simp [hb] at hb0
      · have hb0 : isBlocked s t = false := by simpa using hb0
        have h1 := hi.runnable t hd hc hb0
        have h3 : W s t f = 0 := by
          simp only [W, List.count_eq_zero]
          exact hi.no_reg hb0 f
        simp only [H, List.countP_append, key] at *; omega
    · intro t g hm
      simp only [List.mem_append, List.mem_map] at hm
      simp only
      split
      · exact hst
      · rename_i hg
        rcases hm with hm | ⟨c, hc, hc2⟩
        · exact hi.wakeDone t g hm
        · cases c with
          | wake u => simp [toHandle] at hc2; exact absurd hc2.2.symm hg
          | other k => simp [toHandle] at hc2
    · exact hi.noErr
  · exact hi

macro "use_inv " h:ident : tactic => `(tactic| (
  have := ($h).fresh; have := ($h).doneCbs; have := ($h).wakeFw; have := ($h).doneT
  have := ($h).cur; have := ($h).blocked; have := ($h).runnable; have := ($h).wakeDone
  have := ($h).noErr))

theorem inv_congr {s s' : State} (hi : Inv s)
    (h1 : ∀ t, (s'.tasks t).done = (s.tasks t).done)
    (h2 : ∀ t, (s'.tasks t).futWaiter = (s.tasks t).futWaiter)
    (h3 : s'.futs = s.futs) (h4 : s'.ctx = s.ctx) (h5 : s'.err = s.err) (h6 : s.nt ≤ s'.nt)
    (h7 : ∀ t, H s' t = H s t)
    (h8 : ∀ t f, Handle.wakeup t f ∈ s'.ready → Handle.wakeup t f ∈ s.ready) : Inv s' := by
  use_inv hi
  constructor <;> simp only [W, isBlocked, h1, h2, h3, h4, h5, h7] at * <;> grind

theorem inv_ctx {s : State} (hi : Inv s) (c : Ctx) (h1 : ∀ t, s.ctx ≠ .inTask t) (h2 : ∀ t, c ≠ .inTask t) :
    Inv { s with ctx := c } := by
  use_inv hi
  constructor <;> simp only [H, W, isBlocked] at * <;> grind

theorem cancelTask_inv {s : State} (hi : Inv s) (t : TaskId) : Inv (cancelTask s t) := by
  unfold cancelTask
  simp only
  split
  · exact hi
  · split
    · split
      · exact completeFut_inv hi _ _ (by decide)
      · apply inv_congr hi <;> simp [setTask, H] <;> grind
    · apply inv_congr hi <;> simp [setTask, H] <;> grind

theorem create_inv {s : State} (hi : Inv s) (py : Bool) : Inv (step s (.create py)).1 := by
  use_inv hi
  have hd := hi.fresh s.nt (Nat.le_refl _)
  have ⟨h0, hfw⟩ := hi.doneT s.nt hd
  have hiso : ∀ t, isOf t (Handle.step s.nt none) = (s.nt == t) := by
    intro t; simp [isOf, taskFromHandle]
  constructor <;>
    simp only [step, setTask, H, W, isBlocked, List.countP_append, List.countP_singleton, hiso] at * <;>
    grind

theorem H_pos_not_done {s : State} (hi : Inv s) {t : TaskId} (h : 0 < H s t) :
    (s.tasks t).done = false := by
  cases hd : (s.tasks t).done with
  | false => rfl
  | true => have := (hi.doneT t hd).1; omega

/-- state after `_run_once` popped a handle that belongs to task `t` (idle context) -/
theorem runStep_inv {s : State} (hi : Inv s) (hidle : s.ctx = .idle) (h : Handle) (rest : List Handle)
    (hr : s.ready = h :: rest) (t : TaskId) (ht : isOf t h = true) (e : Option Exc) :
    Inv (runStep { s with ready := rest } t e).1 ∧ (runStep { s with ready := rest } t e).2 = .ok := by
  have hH : H s t = rest.countP (isOf t) + 1 := by simp [H, hr, ht]
  have hnd : (s.tasks t).done = false := H_pos_not_done hi (by omega)
  have hnc : s.ctx ≠ .inTask t := by rw [hidle]; simp
  have hnb : isBlocked s t = false := by
    cases hb : isBlocked s t with
    | false => rfl
    | true => have := (hi.blocked t hnd hnc hb).1; omega
  have h1 := hi.runnable t hnd hnc hnb
  have hrest : rest.countP (isOf t) = 0 := by omega
  have hoth : ∀ u, u ≠ t → rest.countP (isOf u) = H s u := by
    intro u hu; simp [H, hr, isOf_of_isOf ht hu]
  have hnoreg := fun f => hi.no_reg hnb f
  have hmem : ∀ u f, Handle.wakeup u f ∈ rest → Handle.wakeup u f ∈ s.ready := by
    intro u f hm; rw [hr]; exact List.mem_cons_of_mem _ hm
  use_inv hi
  unfold runStep
  simp only [hnd]
  refine ⟨?_, by simp⟩
  constructor <;> simp only [setTask, H, W, isBlocked] at * <;> grind

theorem pop_other_inv {s : State} (hi : Inv s) (h : Handle) (rest : List Handle)
    (hr : s.ready = h :: rest) (hh : ∀ t, isOf t h = false) : Inv { s with ready := rest } := by
  apply inv_congr hi <;> simp [H, hr, hh]
  intro t f hm; exact Or.inr hm

theorem beginHandle_inv {s : State} (hi : Inv s) : Inv (beginHandle s).1 := by
  unfold beginHandle
  split
  · rename_i h rest hctx hr
    simp only
    split
    · exact pop_other_inv hi _ _ hr (by intro t; simp [isOf, taskFromHandle])
    · exact cancelTask_inv (pop_other_inv hi _ _ hr (by intro t; simp [isOf, taskFromHandle])) _
    · rename_i t e
      exact (runStep_inv hi hctx _ _ hr t (by simp [isOf, taskFromHandle]) e).1
    · rename_i t f
      have hnp := hi.wakeDone t f (by rw [hr]; exact List.mem_cons_self)
      have ht : isOf t (Handle.wakeup t f) = true := by simp [isOf, taskFromHandle]
      split
      · rename_i hp; exact absurd hp hnp
      · exact (runStep_inv hi hctx _ _ hr t ht _).1
      · exact (runStep_inv hi hctx _ _ hr t ht _).1
      · exact (runStep_inv hi hctx _ _ hr t ht _).1
  · exact hi

theorem completeFut_ctx (s : State) (f : FutId) (st : FutSt) (c : Ctx) :
    { completeFut s f st with ctx := c } = completeFut { s with ctx := c } f st := by
  unfold completeFut; split <;> rfl

theorem isOf_step (t u : TaskId) (e : Option Exc) : isOf u (Handle.step t e) = (t == u) := by
  simp [isOf, taskFromHandle]

theorem isOf_wakeup (t u : TaskId) (f : FutId) : isOf u (Handle.wakeup t f) = (t == u) := by
  simp [isOf, taskFromHandle]

/-- the state reached by `yieldFut f` on a pending future when no cancellation is pending -/
def blockOn (s : State) (t : TaskId) (f : FutId) (mc : Bool) : State :=
  { setTask (setFut s f { (s.futs f) with cbs := (s.futs f).cbs ++ [.wake t] }) t
      { (s.tasks t) with futWaiter := some f, mustCancel := mc } with ctx := .idle }

theorem blockOn_inv {s : State} (hi : Inv s) (t : TaskId) (hc : s.ctx = .inTask t) (f : FutId)
    (hp : (s.futs f).st = .pending) (mc : Bool) : Inv (blockOn s t f mc) := by
  have ⟨hnd, hH, hfw⟩ := hi.cur t hc
  have hnoreg : ∀ g, Cb.wake t ∉ (s.futs g).cbs := by
    intro g hm; have := hi.wakeFw t g hm; rw [hfw] at this; cases this
  have hW : (s.futs f).cbs.count (.wake t) = 0 := List.count_eq_zero.mpr (hnoreg f)
  use_inv hi
  constructor <;>
    simp only [blockOn, setTask, setFut, H, W, isBlocked] at * <;>
    grind

theorem endStep_inv {s : State} (hi : Inv s) (t : TaskId) (hc : s.ctx = .inTask t) (a : Act) :
    Inv (endStep s t a) := by
  have ⟨hnd, hH, hfw⟩ := hi.cur t hc
  have hnoreg : ∀ g, Cb.wake t ∉ (s.futs g).cbs := by
    intro g hm; have := hi.wakeFw t g hm; rw [hfw] at this; cases this
  have hctx : ∀ u, u ≠ t → s.ctx ≠ .inTask u := by
    intro u hu h; rw [hc] at h; exact hu (Ctx.inTask.inj h).symm
  cases a with
  | yieldNone =>
    use_inv hi
    constructor <;>
      simp only [endStep, callSoon, H, W, isBlocked, List.countP_append, List.countP_singleton,
        isOf_step] at * <;> grind
  | yieldErr =>
    use_inv hi
    constructor <;>
      simp only [endStep, callSoon, H, W, isBlocked, List.countP_append, List.countP_singleton,
        isOf_step] at * <;> grind
  | finish =>
    use_inv hi
    constructor <;>
      simp only [endStep, setTask, H, W, isBlocked] at * <;> grind
  | yieldFut f =>
    simp only [endStep]
    split
    · rename_i hp
      split
      · rw [completeFut_ctx]
        exact completeFut_inv (blockOn_inv hi t hc f hp false) f _ (by decide)
      · have := blockOn_inv hi t hc f hp (s.tasks t).mustCancel
        simpa [blockOn] using this
    · rename_i hp
      use_inv hi
      constructor <;>
        simp only [setTask, callSoon, H, W, isBlocked, List.countP_append, List.countP_singleton,
          isOf_wakeup, List.mem_append, List.mem_singleton] at * <;> grind

theorem reinsert_inv {s : State} (hi : Inv s) (t : TaskId) (pos : Nat) : Inv (reinsert s t pos).1 := by
  unfold reinsert
  split
  · exact hi
  · rename_i h r hs
    have ⟨_, hperm⟩ := popLast_some hs
    have hp2 : (r.insertIdx (min pos r.length) h).Perm s.ready :=
      (List.perm_insertIdx h r (Nat.min_le_right _ _)).trans hperm.symm
    apply inv_congr hi <;> simp [H]
    · intro u; exact hp2.countP_eq _
    · intro u f hm; exact hp2.mem_iff.mp hm

theorem addCb_inv {s : State} (hi : Inv s) (f : FutId) (k : Nat) : Inv (step s (.addCb f k)).1 := by
  simp only [step]
  split
  · use_inv hi
    constructor <;> simp only [setFut, H, W, isBlocked] at * <;> grind
  · apply inv_congr hi <;> simp [callSoon, H, isOf, taskFromHandle]

/-- `fin` of task_throw: clear `_fut_waiter`, `call_soon(step, exc)`.  Stated for a state in which
    the task has no handle and no registration left. -/
theorem throwFin_inv {s : State} (t : TaskId) (e : Exc) (th : List (TaskId × Nat))
    (hfresh : ∀ t, s.nt ≤ t → (s.tasks t).done = true)
    (hdoneCbs : ∀ f, (s.futs f).st ≠ .pending → (s.futs f).cbs = [])
    (hwakeFw : ∀ u f, Cb.wake u ∈ (s.futs f).cbs → u ≠ t ∧ (s.tasks u).futWaiter = some f)
    (hdoneT : ∀ u, (s.tasks u).done = true → H s u = 0 ∧ (s.tasks u).futWaiter = none)
    (hcur : ∀ u, s.ctx = .inTask u →
      u ≠ t ∧ (s.tasks u).done = false ∧ H s u = 0 ∧ (s.tasks u).futWaiter = none)
    (hblocked : ∀ u, u ≠ t → (s.tasks u).done = false → s.ctx ≠ .inTask u → isBlocked s u = true →
      H s u = 0 ∧ ∀ f, (s.tasks u).futWaiter = some f → W s u f = 1)
    (hrunnable : ∀ u, u ≠ t → (s.tasks u).done = false → s.ctx ≠ .inTask u → isBlocked s u = false →
      H s u = 1)
    (hwakeDone : ∀ u f, Handle.wakeup u f ∈ s.ready → (s.futs f).st ≠ .pending)
    (hnoErr : s.err = false)
    (ht : (s.tasks t).done = false) (hH : H s t = 0) :
    Inv { setTask s t { (s.tasks t) with futWaiter := none } with
          ready := s.ready ++ [.step t (some e)], thrown := th } := by
  constructor <;>
    simp only [setTask, H, W, isBlocked, List.countP_append, List.countP_singleton, isOf_step,
      List.mem_append, List.mem_singleton] at * <;> grind

theorem count_filter_ne (t u : TaskId) (l : List Cb) (h : u ≠ t) :
    (l.filter (· != Cb.wake t)).count (.wake u) = l.count (.wake u) := by
  apply List.count_filter
  simp [h]

theorem not_mem_filter_ne (t : TaskId) (l : List Cb) : Cb.wake t ∉ l.filter (· != Cb.wake t) := by
  simp [List.mem_filter]

theorem blockedOn_some {s : State} {T : Task} {f : FutId} (h : blockedOn s T = some f) :
    T.futWaiter = some f ∧ (s.futs f).st = .pending := by
  unfold blockedOn at h
  split at h
  · split at h
    · rename_i hfw hp; cases h; exact ⟨hfw, hp⟩
    · cases h
  · cases h

theorem blockedOn_none {s : State} {t : TaskId} (h : blockedOn s (s.tasks t) = none) :
    isBlocked s t = false := by
  unfold blockedOn at h
  unfold isBlocked
  split at h
  · rename_i g hfw
    split at h
    · cases h
    · rename_i hp; simp [hfw, hp]
  · rename_i hfw; simp [hfw]

theorem taskThrow_inv {s : State} (hi : Inv s) (t : TaskId) (cd : Bool) :
    Inv (taskThrow s t cd).1 := by
  have hi0 : Inv { s with nexc := s.nexc + 1 } := by apply inv_congr hi <;> simp [H]
  unfold taskThrow
  simp only
  split
  · exact hi0
  · rename_i hnd
    have hnd : (s.tasks t).done = false := by simpa using hnd
    split
    · exact hi0
    split
    · -- blocked on f
      rename_i f hbo
      have hfw := blockedOn_some hbo
      have hb : isBlocked s t = true := by simp [isBlocked, hfw.1, hfw.2]
      have hnc : s.ctx ≠ .inTask t := by
        intro hc; have := (hi.cur t hc).2.2; rw [hfw.1] at this; cases this
      have ⟨hH, hW⟩ := hi.blocked t hnd hnc hb
      use_inv hi
      unfold throwFin
      apply throwFin_inv
      · simpa [setFut] using hi.fresh
      · intro g; simp only [setFut]; split
        · rename_i hg; subst hg; simp [hfw.2]
        · exact hi.doneCbs g
      · intro u g; simp only [setFut]
        by_cases hg : g = f
        · subst hg; simp only [if_true]
          intro hm
          have hm2 := (List.mem_filter.mp hm)
          refine ⟨?_, hi.wakeFw u g hm2.1⟩
          intro hut; subst hut; simp at hm2
        · simp only [hg, if_false]
          intro hm
          refine ⟨?_, hi.wakeFw u g hm⟩
          intro hut; subst hut
          have := hi.wakeFw u g hm; rw [hfw.1] at this
          exact hg (Option.some.inj this).symm
      · simpa [setFut, H] using hi.doneT
      · intro u hc
        simp only [setFut] at hc
        refine ⟨?_, ?_⟩
        · intro hut; subst hut; exact hnc hc
        · simpa [setFut, H] using hi.cur u hc
      · intro u hut hd hc hbu
        have hbu' : isBlocked s u = true := by
          simp only [isBlocked, setFut] at hbu ⊢
          cases hu : (s.tasks u).futWaiter with
          | none => simp [hu] at hbu
          | some g =>
            simp only [hu] at hbu ⊢
            by_cases hg : g = f
            · subst hg; simp [hfw.2]
            · simpa [hg] using hbu
        have ⟨h1, h2⟩ := hi.blocked u hd hc hbu'
        refine ⟨by simpa [H, setFut] using h1, ?_⟩
        intro g hg
        have := h2 g hg
        simp only [W, setFut] at this ⊢
        split
        · rename_i hgf; subst hgf; simp only; rw [count_filter_ne t u _ hut]; exact this
        · exact this
      · intro u hut hd hc hbu
        have hbu' : isBlocked s u = false := by
          simp only [isBlocked, setFut] at hbu ⊢
          cases hu : (s.tasks u).futWaiter with
          | none => rfl
          | some g =>
            simp only [hu] at hbu ⊢
            by_cases hg : g = f
            · subst hg; simp [hfw.2] at hbu
            · simpa [hg] using hbu
        simpa [H, setFut] using hi.runnable u hd hc hbu'
      · intro u g hm
        simp only [setFut] at hm ⊢
        split
        · rename_i hg; subst hg; simp only; rw [hfw.2]
          exact absurd hfw.2 (hi.wakeDone u g hm)
        · exact hi.wakeDone u g hm
      · exact hi.noErr
      · simpa [setFut] using hnd
      · simpa [setFut, H] using hH
    · -- not blocked
      rename_i hbo
      have hb : isBlocked s t = false := blockedOn_none hbo
      split
      · exact hi0
      · split
        · rename_i hpop
          have h0 : H s t = 0 := by simpa [H] using popLast_none.mp hpop
          split
          · exact hi0
          · rename_i hc
            exfalso
            have := hi.runnable t hnd (by simpa using hc) hb
            omega
        · rename_i h r hpop
          have ⟨hof, hperm⟩ := popLast_some hpop
          skip
          have hcnt : ∀ u, H s u = r.countP (isOf u) + (if isOf u h then 1 else 0) := by
            intro u; simp only [H]; rw [hperm.countP_eq, List.countP_cons]
          have hnc : s.ctx ≠ .inTask t := by
            intro hc; have := (hi.cur t hc).2.1; have := hcnt t; simp [hof] at this; omega
          have h1 := hi.runnable t hnd hnc hb
          have hr0 : r.countP (isOf t) = 0 := by have := hcnt t; simp [hof] at this; omega
          have hoth : ∀ u, u ≠ t → r.countP (isOf u) = H s u := by
            intro u hu; have := hcnt u; simp [isOf_of_isOf hof hu] at this; omega
          have hmem : ∀ u f, Handle.wakeup u f ∈ r → Handle.wakeup u f ∈ s.ready := by
            intro u f hm; exact hperm.mem_iff.mpr (List.mem_cons_of_mem _ hm)
          have hnoreg := fun f => hi.no_reg hb f
          use_inv hi
          unfold throwFin
          apply throwFin_inv <;> simp only [H, W, isBlocked] at * <;> grind


/-- Every event preserves the invariant (no enabledness hypothesis is needed: events that are not
    enabled leave the state unchanged). -/
theorem step_inv {s : State} (hi : Inv s) (e : Event) : Inv (step s e).1 := by
  cases e with
  | create py => exact create_inv hi py
  | newFut => apply inv_congr hi <;> simp [step, H]
  | setResult f => simp only [step]; split; exact completeFut_inv hi _ _ (by decide); exact hi
  | setExc f => simp only [step]; split; exact completeFut_inv hi _ _ (by decide); exact hi
  | cancelFut f => simp only [step]; split; exact completeFut_inv hi _ _ (by decide); exact hi
  | addCb f k => exact addCb_inv hi f k
  | setNoCancel f b =>
    use_inv hi
    constructor <;> simp only [step, setFut, H, W, isBlocked] at * <;> grind
  | cancelTask t => simp only [step]; split; exact hi; exact cancelTask_inv hi t
  | callSoonOther t => apply inv_congr hi <;> simp [step, callSoon, H, isOf, taskFromHandle]
  | callSoonCb k => apply inv_congr hi <;> simp [step, callSoon, H, isOf, taskFromHandle]
  | taskThrow t cd => exact taskThrow_inv hi t cd
  | reinsert t pos => exact reinsert_inv hi t pos
  | begin => exact beginHandle_inv hi
  | endStep a =>
    simp only [step]
    split
    · rename_i t hc; exact endStep_inv hi t hc a
    · exact hi
  | pause =>
    simp only [step]
    split
    · rename_i hc; exact inv_ctx hi _ (by simp [hc]) (by simp)
    · exact hi
  | resume =>
    simp only [step]
    split
    · rename_i hc; exact inv_ctx hi _ (by simp [hc]) (by simp)
    · exact hi

theorem run_inv {s : State} (hi : Inv s) (evs : List Event) : Inv (run s evs) := by
  induction evs generalizing s with
  | nil => exact hi
  | cons e es ih => exact ih (step_inv hi e)

theorem reachable_inv {s : State} (h : Reachable s) : Inv s := by
  obtain ⟨evs, rfl⟩ := h
  exact run_inv inv_init evs

theorem readyFind_iff_H {s : State} {t : TaskId} : readyFind s t = true ↔ 0 < H s t := by
  simp [readyFind, H, List.countP_pos_iff]

theorem mem_readyTasks {s : State} {t : TaskId} : t ∈ readyTasks s ↔ 0 < H s t := by
  simp only [readyTasks, List.mem_filterMap, H, List.countP_pos_iff, isOf]
  constructor
  · rintro ⟨a, ha, hf⟩; exact ⟨a, ha, by simp [hf]⟩
  · rintro ⟨a, ha, hf⟩; exact ⟨a, ha, by simpa using hf⟩

theorem mem_allTasks {s : State} (hi : Inv s) {t : TaskId} :
    t ∈ allTasks s ↔ (s.tasks t).done = false := by
  simp only [allTasks, List.mem_filter, List.mem_range]
  constructor
  · rintro ⟨_, h⟩; simpa using h
  · intro h
    refine ⟨?_, by simp [h]⟩
    apply Nat.lt_of_not_le
    intro hle
    have := hi.fresh t hle
    rw [h] at this; cases this

end Asynkit.Kernel
