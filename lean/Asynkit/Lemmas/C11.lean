/-
Lemmas for C11: fuel independence and the closed form of effective priorities on ranked
(acyclic) wait-for graphs.  Core Lean only.
-/
import Asynkit.Model.PrioGraph

namespace Asynkit.PrioGraph

theorem foldl_min_le_init (l : List Rat) (a : Rat) : l.foldl min a ≤ a := by
  induction l generalizing a with
  | nil => simp
  | cons x xs ih => simp only [List.foldl_cons]; have := ih (min a x); grind

theorem foldl_min_le_mem (l : List Rat) (a x : Rat) (hx : x ∈ l) : l.foldl min a ≤ x := by
  induction l generalizing a with
  | nil => cases hx
  | cons y ys ih =>
    simp only [List.foldl_cons]
    rcases List.mem_cons.mp hx with r | r
    · subst r; have := foldl_min_le_init ys (min a x); grind
    · exact ih (min a y) r

theorem foldl_min_eq (l : List Rat) (a : Rat) : l.foldl min a = a ∨ l.foldl min a ∈ l := by
  induction l generalizing a with
  | nil => left; rfl
  | cons y ys ih =>
    simp only [List.foldl_cons]
    rcases ih (min a y) with r | r
    · rw [r]; have : min a y = a ∨ min a y = y := by grind
      rcases this with q | q
      · left; exact q
      · right; rw [q]; simp
    · right; exact List.mem_cons_of_mem _ r

theorem minList_le {l : List Rat} {m x : Rat} (h : minList l = some m) (hx : x ∈ l) : m ≤ x := by
  cases l with
  | nil => cases hx
  | cons y ys =>
    simp only [minList, Option.some.injEq] at h; subst h
    rcases List.mem_cons.mp hx with r | r
    · subst r; exact foldl_min_le_init ys x
    · exact foldl_min_le_mem ys y x r

theorem minList_mem {l : List Rat} {m : Rat} (h : minList l = some m) : m ∈ l := by
  cases l with
  | nil => cases h
  | cons y ys =>
    simp only [minList, Option.some.injEq] at h; subst h
    rcases foldl_min_eq ys y with r | r
    · rw [r]; simp
    · exact List.mem_cons_of_mem _ r

theorem minList_isSome {l : List Rat} (h : l ≠ []) : ∃ m, minList l = some m := by
  cases l with
  | nil => exact absurd rfl h
  | cons y ys => exact ⟨_, rfl⟩

theorem filterMap_congr' {α β} {f g : α → Option β} :
    ∀ (l : List α), (∀ x ∈ l, f x = g x) → l.filterMap f = l.filterMap g
  | [], _ => rfl
  | x :: xs, h => by
    simp only [List.filterMap_cons]
    rw [h x (by simp), filterMap_congr' xs (fun y hy => h y (List.mem_cons_of_mem _ hy))]

theorem effT_succ (g : Graph) (f t : Nat) :
    effT g (f + 1) t = ((g.holding t).filterMap (effL g f)).foldl min (g.own t) := by simp [effT]
theorem effL_succ (g : Graph) (f l : Nat) :
    effL g (f + 1) l = minList ((g.waiters l).map (effT g f)) := by simp [effL]
theorem effT_zero (g : Graph) (t : Nat) : effT g 0 t = g.own t := by simp [effT]
theorem effL_zero (g : Graph) (l : Nat) : effL g 0 l = none := by simp [effL]

/-- fuel independence above the rank -/
theorem eff_fuel (g : Graph) (r : Ranked g) : ∀ n,
    (∀ t, r.rT t < n → ∀ f1 f2, r.rT t ≤ f1 → r.rT t ≤ f2 → effT g f1 t = effT g f2 t) ∧
    (∀ l, r.rL l < n → ∀ f1 f2, r.rL l ≤ f1 → r.rL l ≤ f2 → effL g f1 l = effL g f2 l) := by
  intro n
  induction n with
  | zero => exact ⟨fun _ h => absurd h (Nat.not_lt_zero _), fun _ h => absurd h (Nat.not_lt_zero _)⟩
  | succ n ih =>
    have hT : ∀ t, r.rT t < n + 1 → ∀ a b, r.rT t ≤ a + 1 → r.rT t ≤ b + 1 →
        effT g (a + 1) t = effT g (b + 1) t := by
      intro t ht a b ha hb
      rw [effT_succ, effT_succ]
      congr 1
      apply filterMap_congr'
      intro l hl
      have := r.hold t l hl
      exact ih.2 l (by omega) a b (by omega) (by omega)
    have hL : ∀ l, r.rL l < n + 1 → ∀ a b, r.rL l ≤ a + 1 → r.rL l ≤ b + 1 →
        effL g (a + 1) l = effL g (b + 1) l := by
      intro l hl a b ha hb
      rw [effL_succ, effL_succ]
      congr 1
      apply List.map_congr_left
      intro w hw
      have := r.wait l w hw
      exact ih.1 w (by omega) a b (by omega) (by omega)
    have hT0 : ∀ t, r.rT t = 0 → ∀ b, effT g 0 t = effT g (b + 1) t := by
      intro t h0 b
      have : g.holding t = [] := by
        cases hh : g.holding t with
        | nil => rfl
        | cons l ls => have := r.hold t l (by rw [hh]; simp); omega
      rw [effT_zero, effT_succ, this]; rfl
    have hL0 : ∀ l, r.rL l = 0 → ∀ b, effL g 0 l = effL g (b + 1) l := by
      intro l h0 b
      have : g.waiters l = [] := by
        cases hh : g.waiters l with
        | nil => rfl
        | cons w ws => have := r.wait l w (by rw [hh]; simp); omega
      rw [effL_zero, effL_succ, this]; rfl
    constructor
    · intro t ht f1 f2 h1 h2
      cases f1 with
      | zero =>
        cases f2 with
        | zero => rfl
        | succ b => exact hT0 t (by omega) b
      | succ a =>
        cases f2 with
        | zero => exact (hT0 t (by omega) a).symm
        | succ b => exact hT t ht a b h1 h2
    · intro l hl f1 f2 h1 h2
      cases f1 with
      | zero =>
        cases f2 with
        | zero => rfl
        | succ b => exact hL0 l (by omega) b
      | succ a =>
        cases f2 with
        | zero => exact (hL0 l (by omega) a).symm
        | succ b => exact hL l hl a b h1 h2

theorem effT_fuel {g : Graph} (r : Ranked g) {t f1 f2 : Nat} (h1 : r.rT t ≤ f1) (h2 : r.rT t ≤ f2) :
    effT g f1 t = effT g f2 t := (eff_fuel g r (r.rT t + 1)).1 t (by omega) f1 f2 h1 h2

theorem effT_le_own (g : Graph) (f t : Nat) : effT g f t ≤ g.own t := by
  cases f with
  | zero => rw [effT_zero]; grind
  | succ f => rw [effT_succ]; exact foldl_min_le_init _ _

/-- one edge: the holder is at least as urgent as the waiter -/
theorem effT_holder_le {g : Graph} (r : Ranked g) {t l w f : Nat} (hl : l ∈ g.holding t)
    (hw : w ∈ g.waiters l) (hf : r.rT t ≤ f) : effT g f t ≤ effT g f w := by
  have h1 := r.hold t l hl
  have h2 := r.wait l w hw
  obtain ⟨a, rfl⟩ : ∃ a, f = a + 2 := ⟨f - 2, by omega⟩
  have hne : (g.waiters l).map (effT g a) ≠ [] := by
    intro e; rw [List.map_eq_nil_iff] at e; rw [e] at hw; cases hw
  obtain ⟨m, hm⟩ := minList_isSome hne
  have hm' : effL g (a + 1) l = some m := by rw [effL_succ]; exact hm
  have : effT g (a + 2) t ≤ m := by
    rw [effT_succ]
    apply foldl_min_le_mem
    exact List.mem_filterMap.mpr ⟨l, hl, hm'⟩
  have h3 : m ≤ effT g a w := minList_le hm (List.mem_map_of_mem hw)
  have h4 : effT g a w = effT g (a + 2) w := effT_fuel r (by omega) (by omega)
  grind

theorem reaches_rank {g : Graph} (r : Ranked g) {u t : Nat} (h : Reaches g u t) : r.rT u ≤ r.rT t := by
  induction h with
  | refl t => exact Nat.le_refl _
  | step hw _ ih =>
    obtain ⟨l, hl, hu⟩ := hw
    have := r.hold _ l hl
    have := r.wait l _ hu
    omega

theorem reaches_trans {g : Graph} {a b c : Nat} (h1 : Reaches g a b) (h2 : Reaches g b c) : Reaches g a c := by
  induction h1 with
  | refl _ => exact h2
  | step hw _ ih => exact Reaches.step hw (ih h2)

theorem effT_reaches_le {g : Graph} (r : Ranked g) {u t f : Nat} (h : Reaches g u t) (hf : r.rT t ≤ f) :
    effT g f t ≤ effT g f u := by
  induction h with
  | refl t => grind
  | step hw h2 ih =>
    obtain ⟨l, hl, hu⟩ := hw
    have h3 := ih hf
    have h4 := effT_holder_le r hl hu (f := f) (by have := reaches_rank r h2; omega)
    grind

/-- the effective priority is the own priority of some task that transitively waits on `t` -/
theorem effT_attained {g : Graph} (r : Ranked g) : ∀ (f t : Nat), r.rT t ≤ f →
    ∃ u, Reaches g u t ∧ effT g f t = g.own u := by
  intro f
  induction f using Nat.strongRecOn with
  | _ f ih =>
    intro t hf
    cases f with
    | zero => exact ⟨t, Reaches.refl t, effT_zero g t⟩
    | succ a =>
      rw [effT_succ]
      rcases foldl_min_eq ((g.holding t).filterMap (effL g a)) (g.own t) with e | e
      · exact ⟨t, Reaches.refl t, e⟩
      · obtain ⟨l, hl, hm⟩ := List.mem_filterMap.mp e
        cases a with
        | zero => rw [effL_zero] at hm; cases hm
        | succ b =>
          rw [effL_succ] at hm
          obtain ⟨w, hw, ew⟩ := List.mem_map.mp (minList_mem hm)
          have h1 := r.hold t l hl
          have h2 := r.wait l w hw
          obtain ⟨u, hu, eu⟩ := ih b (by omega) w (by omega)
          refine ⟨u, reaches_trans hu (Reaches.step ⟨l, hl, hw⟩ (Reaches.refl t)), ?_⟩
          rw [← eu, ← ew]

end Asynkit.PrioGraph
