/-
C11 `inherit_immediate`: on the priority loop, in fault-free ordered executions, the ready-queue key
of every runnable task is at least as urgent as its current effective priority.  Part 1: what the
propagation walk does to ready-queue keys, and effective priorities across the transitions.
-/
import Asynkit.Lemmas.C12KeyInv6

namespace Asynkit.Lock
open Asynkit.PrioGraph

/-! ### ready-queue keys under the walk -/

/-- ready keys of `B'` are those of `B`, except that a key that was present may have been replaced
    by the task's effective priority (in `A`) -/
def RelT (A B B' : State) : Prop :=
  ∀ i, (B'.tasks i).rkey = (B.tasks i).rkey ∨
    ((B.tasks i).rkey.isSome = true ∧ (B'.tasks i).rkey = some (A.eff i))

theorem RelT.refl (A B : State) : RelT A B B := fun _ => Or.inl rfl

theorem RelT.trans {A B1 B2 B3 : State} (h1 : RelT A B1 B2) (h2 : RelT A B2 B3) : RelT A B1 B3 := by
  intro i
  rcases h2 i with e2 | ⟨s2, e2⟩
  · rcases h1 i with e1 | ⟨s1, e1⟩
    · left; rw [e2, e1]
    · right; exact ⟨s1, by rw [e2, e1]⟩
  · rcases h1 i with e1 | ⟨s1, e1⟩
    · right; exact ⟨by rw [← e1]; exact s2, e2⟩
    · right; exact ⟨s1, e2⟩

theorem relT_setLock (A B : State) (k : Nat) (l : LockSt) : RelT A B (B.setLock k l) := fun _ => Or.inl rfl

mutual
theorem relT_propT (A : State) : ∀ (f o : Nat) (B : State), KeyEq A B → RelT A B (propT B f o)
  | 0, _, B, _ => by simp only [propT]; exact RelT.refl A B
  | f + 1, o, B, e => by
    simp only [propT]
    split
    · exact RelT.refl A B
    · split
      · split
        · rename_i hc
          intro i
          by_cases c : i = o
          · subst c
            right
            simp only [Bool.and_eq_true] at hc
            exact ⟨hc.2, by simp [eff_keyEq e]⟩
          · left; simp [c]
        · exact RelT.refl A B
      · split
        · exact relT_propL A f _ o B e
        · exact RelT.refl A B
theorem relT_propL (A : State) : ∀ (f k i : Nat) (B : State), KeyEq A B → RelT A B (propL B f k i)
  | 0, _, _, B, _ => by simp only [propL]; exact RelT.refl A B
  | f + 1, k, i, B, e => by
    simp only [propL]
    split
    · rename_i o _
      exact (relT_propT A f o B e).trans (relT_setLock A _ k _)
    · exact relT_setLock A B k _
end

/-- the ready key of `h` is its effective priority in `A` -/
def RkR (A S : State) (h : Nat) : Prop := (S.tasks h).rkey = some (A.eff h)

/-- `QR n x`: starting the walk at `x` with at least `n` fuel re-keys the ready entry of `h` -/
def QR (A : State) (h n x : Nat) : Prop :=
  ∀ B, KeyEq A B → RelT A A B → ∀ f, n ≤ f → RkR A (propT B f x) h

theorem qr_self {A : State} {h : Nat} (hp : (A.tasks h).prio.isSome = true)
    (hr : (A.tasks h).status.runnable = true) (hl : A.prioLoop = true)
    (hk : (A.tasks h).rkey.isSome = true) : QR A h 1 h := by
  intro B e rt f hf
  obtain ⟨f', rfl⟩ : ∃ f', f = f' + 1 := ⟨f - 1, by omega⟩
  have h1 : (B.tasks h).prio.isNone = false := by
    rw [e.prio]; cases hh : (A.tasks h).prio <;> simp [hh] at hp ⊢
  have h2 : (B.tasks h).status.runnable = true := by rw [e.status]; exact hr
  have h3 : B.prioLoop = true := by rw [e.prioLoop]; exact hl
  have h4 : (B.tasks h).rkey.isSome = true := by
    rcases rt h with r | ⟨_, r⟩ <;> rw [r]
    · exact hk
    · rfl
  simp [propT, h1, h2, h3, h4, RkR, eff_keyEq e]

theorem qr_lift {A : State} {h n u w l : Nat} (hq : QR A h n u)
    (hp : (A.tasks w).prio.isSome = true) (hb : (A.tasks w).status = .blocked)
    (hw : (A.tasks w).waitingOn = some l) (ho : (A.locks l).owner = some u) : QR A h (n + 2) w := by
  intro B e rt f hf
  obtain ⟨f', rfl⟩ : ∃ f', f = f' + 2 := ⟨f - 2, by omega⟩
  have h1 : (B.tasks w).prio.isNone = false := by
    rw [e.prio]; cases hh : (A.tasks w).prio <;> simp [hh] at hp ⊢
  have h2 : (B.tasks w).status.runnable = false := by rw [e.status, hb]; rfl
  have h3 : (B.tasks w).waitingOn = some l := by rw [e.waitingOn]; exact hw
  have h4 : (B.locks l).owner = some u := by rw [e.owner]; exact ho
  simp only [propT, h1, h2, h3, Bool.false_eq_true, if_false, propL, h4]
  exact hq B e rt f' (by omega)

theorem qr_chain {s : State} (hI : Inv s) (hc : Clean s) {j k o h : Nat}
    (hrun : (s.tasks j).status = .running) (hown : (s.locks k).owner = some o) :
    ∀ {u d : Nat}, Under s.graph u k d → ∀ n, QR (appended s j k) h n u →
      QR (appended s j k) h (n + 2 * d) o := by
  intro u d hu
  induction hu with
  | @base u k hk =>
    intro n hq
    have := ((hI.linv k).ownerOwns u).mpr (hI.holding_sub hk)
    rw [hown] at this; injection this with this
    subst this; simpa using hq
  | @step u l w k d hl hw hu ih =>
    intro n hq
    obtain ⟨h1, h2, h3, h4⟩ := chain_node hI hc hl hw (under_holding_ne hu)
    have hwj : w ≠ j := by intro e; rw [e, hrun] at h2; cases h2
    have := qr_lift (A := appended s j k) hq (by rw [appended_task hwj]; exact h1)
      (by rw [appended_task hwj]; exact h2) (by rw [appended_task hwj]; exact h3)
      (by rw [appended_owner]; exact h4)
    have := ih hown (n + 2) this
    have e : n + 2 + 2 * d = n + 2 * (d + 1) := by omega
    rw [e] at this; exact this

end Asynkit.Lock
