/-
C12 `waiter_key_inv`, part 4: the key invariant and its preservation by every transition except
the queueing `acquire` (part 5).
-/
import Asynkit.Lemmas.C12KeyInv3

namespace Asynkit.Lock
open Asynkit.PrioGraph

/-- every queued waiter whose future is still pending is keyed by its current effective priority -/
def KInv (s : State) : Prop :=
  ∀ k, ∀ w ∈ (s.locks k).waiters, w.fut = .pending → w.key = s.eff w.task

theorem kinv_of_local {s s' : State} (h : KInv s)
    (hent : ∀ k, ∀ w ∈ (s'.locks k).waiters, w.fut = .pending →
      ∃ w0 ∈ (s.locks k).waiters, w0.task = w.task ∧ w0.key = w.key ∧ w0.fut = .pending)
    (heff : ∀ k, ∀ w0 ∈ (s.locks k).waiters, w0.fut = .pending → s'.eff w0.task = s.eff w0.task) :
    KInv s' := by
  intro k w hw hp
  obtain ⟨w0, hw0, e1, e2, e3⟩ := hent k w hw hp
  rw [← e2, ← e1, heff k w0 hw0 e3]
  exact h k w0 hw0 e3

/-- state-level form of `eff_local` -/
theorem eff_eq_local {s s' : State} (dT dL : Nat → Prop) (hf : s'.fuel = s.fuel)
    (hprio : ∀ i, (s'.tasks i).prio = (s.tasks i).prio)
    (hh : ∀ t, ¬ dT t → (s'.tasks t).holding = (s.tasks t).holding)
    (hw : ∀ l, ¬ dL l → (s'.locks l).waiters.map (·.task) = (s.locks l).waiters.map (·.task))
    (hc1 : ∀ t, ¬ dT t → ∀ l ∈ (s.tasks t).holding, ¬ dL l)
    (hc2 : ∀ l, ¬ dL l → ∀ w ∈ (s.locks l).waiters, ¬ dT w.task) :
    ∀ t, ¬ dT t → s'.eff t = s.eff t := by
  intro t ht
  simp only [State.eff, hf]
  refine (eff_local s.graph s'.graph dT dL ?_ ?_ ?_ ?_ ?_ s.fuel).1 t ht
  · intro i; simp [State.graph, hprio]
  · intro i hi; simp only [State.graph]; exact hh i hi
  · intro l hl; simp only [State.graph]; exact hw l hl
  · intro i hi l hl; exact hc1 i hi l hl
  · intro l hl w hw'
    simp only [State.graph, List.mem_map] at hw'
    obtain ⟨v, hv, e⟩ := hw'
    rw [← e]; exact hc2 l hl v hv

/-- holding ⊆ owns -/
theorem Inv.holding_sub {s : State} (h : Inv s) {t l : Nat} (hl : l ∈ (s.tasks t).holding) :
    l ∈ (s.tasks t).owns := by
  rw [h.holdingOwns t] at hl
  split at hl
  · exact hl
  · cases hl

theorem apply_fuel_nf {N : Nat} {s : State} (hc : Clean s) (e : Ev) (he : e.enabled s = true)
    (ho : Ev.orderly N s e = true) : (s.apply e).fuel = s.fuel := by
  cases e with
  | resume i =>
    have hx := clean_resumeExc hc (resume_status he).2
    simp only [State.apply]
    by_cases hp : ∃ k, (s.tasks i).pos = .acq k
    · obtain ⟨k, hp⟩ := hp
      rw [doResume_acq_noexc s i k hp hx]; rfl
    · rw [doResume_other s i (fun k hk => hp ⟨k, hk⟩)]; rfl
  | acquire k =>
    simp only [State.apply]; split
    · rename_i i _
      by_cases hf : (!(s.locks k).locked && (s.locks k).waiters.isEmpty) = true
      · rw [doAcquire_fast s i k hf]; rfl
      · rw [doAcquire_slow s i k hf]
        show (walk (appended s i k) (s.locks k).owner).fuel = s.fuel
        rw [(walk_keyEq _ _).fuel]; rfl
    · rfl
  | release k =>
    simp only [State.apply]; split
    · rw [doRelease_eq, wakeUpFirst_fuel]; rfl
    · rfl
  | sleep => simp only [State.apply]; split <;> rfl
  | wait ev =>
    simp only [State.apply]; split
    · split <;> rfl
    · rfl
  | finish => simp only [State.apply]; split <;> rfl
  | badRelease k => rfl
  | cancel i => simp [Ev.orderly] at ho
  | throw i x => simp [Ev.orderly] at ho
  | interrupt i x => simp [Ev.orderly] at ho
  | reinsert i ps => simp [Ev.orderly] at ho
  | acquireFails k => simp [Ev.orderly] at ho
  | setEv ev => rfl

/-! ### transitions that do not queue a waiter -/

/-- the graph, the fuel and every lock are unchanged -/
theorem kinv_same {s s' : State} (h : KInv s) (hl : s'.locks = s.locks) (hf : s'.fuel = s.fuel)
    (hp : ∀ i, (s'.tasks i).prio = (s.tasks i).prio)
    (hh : ∀ i, (s'.tasks i).holding = (s.tasks i).holding) : KInv s' := by
  have hg : s'.graph = s.graph := graph_eq_of hp hh (fun k => by rw [hl])
  intro k w hw hpend
  rw [hl] at hw
  rw [eff_eq_of_graph hg hf]
  exact h k w hw hpend

theorem kinv_release {s : State} (hI : Inv s) (h : KInv s) {i k : Nat} (hc : s.cur = some i) :
    KInv (s.doRelease i k) := by
  rw [doRelease_eq]
  have hrun : (s.tasks i).status = .running := (hI.curRunning i).mp hc
  have htop : (s.tasks i).pos = .top := hI.runningTop i hrun
  apply kinv_of_local h
  · intro k' w hw hp
    obtain ⟨w0, hw0, e1, e2, e3⟩ := wakeUpFirst_entries (released s i k) k k' w hw
    have hw0' : w0 ∈ (s.locks k').waiters := by
      by_cases c : k' = k
      · subst c; simpa [released] using hw0
      · simpa [released, c] using hw0
    refine ⟨w0, hw0', e1, e2, ?_⟩
    rcases e3 with e3 | ⟨e3, _⟩
    · rw [← e3]; exact hp
    · exact e3
  · intro k' w0 hw0 _
    apply eff_eq_local (fun t => t = i) (fun _ => False)
    · rw [wakeUpFirst_fuel]; rfl
    · intro j; rw [(wakeUpFirst_fields _ k j).1]; by_cases c : j = i <;> simp [released, c]
    · intro t ht; rw [(wakeUpFirst_fields _ k t).2.2.2.2.1]; simp [released, ht]
    · intro l _; rw [wakeUpFirst_tasks]; by_cases c : l = k <;> simp [released, c]
    · intro _ _ _ _ x; exact x
    · intro l _ w hw e
      exact hI.not_queued (k := l) (by rw [htop]; simp) (wt w) (List.mem_map_of_mem hw) e
    · intro e
      exact hI.not_queued (k := k') (by rw [htop]; simp) (wt w0) (List.mem_map_of_mem hw0) e

theorem kinv_takeLock_running {s : State} (hI : Inv s) (h : KInv s) {i k : Nat}
    (hrun : (s.tasks i).status = .running) : KInv (s.takeLock k i) := by
  have htop : (s.tasks i).pos = .top := hI.runningTop i hrun
  apply kinv_of_local h
  · intro k' w hw hp
    have : w ∈ (s.locks k').waiters := by
      by_cases c : k' = k
      · subst c; simpa [State.takeLock] using hw
      · simpa [State.takeLock, c] using hw
    exact ⟨w, this, rfl, rfl, hp⟩
  · intro k' w0 hw0 _
    apply eff_eq_local (fun t => t = i) (fun _ => False)
    · rfl
    · intro j; by_cases c : j = i <;> simp [State.takeLock, c]
    · intro t ht; simp [State.takeLock, ht]
    · intro l _; by_cases c : l = k <;> simp [State.takeLock, c]
    · intro _ _ _ _ x; exact x
    · intro l _ w hw e
      exact hI.not_queued (k := l) (by rw [htop]; simp) (wt w) (List.mem_map_of_mem hw) e
    · intro e
      exact hI.not_queued (k := k') (by rw [htop]; simp) (wt w0) (List.mem_map_of_mem hw0) e

/-- a waiter woken by the hand-over takes the lock -/
theorem kinv_resume_take {s : State} (hI : Inv s) (hcl : Clean s) (h : KInv s) {i k : Nat}
    (hp : (s.tasks i).pos = .acq k)
    (hst : (∃ c, (s.tasks i).status = .woken c) ∨ (∃ x, (s.tasks i).status = .ready x)) :
    KInv ((rs1 s i k).takeLock k i) := by
  have hk := hI.linv k
  -- the status is `woken false`, every entry of `i` carries the result, the lock is free
  have hwoken : (s.tasks i).status = .woken false := by
    rcases hst with ⟨c, e⟩ | ⟨x, e⟩
    · cases c
      · exact e
      · exact absurd e (hcl i).2.1
    · obtain ⟨p, hp', e1⟩ := hk.queued i hp
      have := (hk.wok p hp').2
      rw [e1, e] at this; simp only [WOK] at this
      subst this; exact absurd e (hcl i).2.2
  have hres : ∀ w ∈ (s.locks k).waiters, w.task = i → w.fut = .result := by
    intro w hw e
    have := (hk.wok (wt w) (List.mem_map_of_mem hw)).2
    simp only [wt] at this; rw [e, hwoken] at this
    simpa [WOK] using this
  have hfree : (s.locks k).owner = none := by
    obtain ⟨p, hp', e1⟩ := hk.queued i hp
    obtain ⟨w, hw, e'⟩ := List.mem_map.mp hp'
    have hr := hres w hw (by rw [← e1, ← e']; rfl)
    have hl : (s.locks k).locked = false := by
      cases hl : (s.locks k).locked with
      | false => rfl
      | true => exact absurd (by rw [← e']; exact hr) (hk.lockedNoResult hl p hp')
    have := hk.lockedOwner; rw [hl] at this
    cases ho : (s.locks k).owner with
    | none => rfl
    | some o => rw [ho] at this; cases this
  apply kinv_of_local h
  · intro k' w hw hpend
    by_cases c : k' = k
    · subst c
      have : w ∈ removeTask (s.locks k').waiters i := by simpa [State.takeLock, rs1] using hw
      exact ⟨w, (List.mem_filter.mp this).1, rfl, rfl, hpend⟩
    · have : w ∈ (s.locks k').waiters := by simpa [State.takeLock, rs1, c] using hw
      exact ⟨w, this, rfl, rfl, hpend⟩
  · intro k' w0 hw0 hpend
    have hne : w0.task ≠ i := by
      intro e
      have h1 := (hI.linv k').wok (wt w0) (List.mem_map_of_mem hw0)
      simp only [wt] at h1
      rw [e, hwoken] at h1
      have := h1.2; simp only [WOK] at this
      rw [hpend] at this; simp at this
    apply eff_eq_local (fun t => t = i) (fun l => l = k)
    · rfl
    · intro j; by_cases c : j = i <;> simp [State.takeLock, rs1, c]
    · intro t ht; simp [State.takeLock, rs1, ht]
    · intro l hl; simp [State.takeLock, rs1, hl]
    · intro t ht l hl e
      subst e
      have := (hk.ownerOwns t).mpr (hI.holding_sub hl)
      rw [hfree] at this; cases this
    · intro l hl w hw e
      have := ((hI.linv l).wok (wt w) (List.mem_map_of_mem hw)).1
      simp only [wt] at this; rw [e, hp] at this
      injection this with this; exact hl this.symm
    · exact hne

end Asynkit.Lock
