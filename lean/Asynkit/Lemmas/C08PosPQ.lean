/-
The priority loop with equal priorities is list-like: instance of `ListLike` (Lemmas/C08Sched)
for `posOps` — `PrioritySchedulingMixin` over `PosPriorityQueue` — for every lawful heapq, every
boost factor and every sequence of random draws.  Built on the lead's container refinement
(`PosPQ.RP`, Lemmas/PosPQ.lean, Lemmas/Order.lean) and `C19.maintenance_noop_equal`.
(Helper lemmas; the property statements are in Props/C08.lean and Props/C10.lean.)
-/
import Asynkit.Lemmas.C08Sched
import Asynkit.Lemmas.C10

namespace Asynkit.Sched
open Asynkit PosPQ

variable {H : HeapLib (Entry PV)}

/-- every entry has priority 0: regular entries are class 1, base 0, no boost -/
def Zero (L : List (Entry PV)) : Prop :=
  ∀ e ∈ L, e.pri.cls ≠ 0 → e.pri.cls = 1 ∧ e.pri.base = 0 ∧ e.pri.boost = 0

/-- the abstraction: the objects in pop order (the sorted arrangement of the heap array) -/
def absP (s : PosPQ) : List Nat := (order PV.lt s.q.pq).map (·.obj)

/-- the invariant: the queue refines a reference list of priority-0 entries with distinct objects -/
def PInv (s : PosPQ) : Prop := ∃ L, PosPQ.RP s L ∧ Zero L ∧ (L.map (·.obj)).Nodup

theorem absP_eq {s : PosPQ} {L} (h : PosPQ.RP s L) : absP s = PosPQ.objs L := by
  unfold absP PosPQ.objs
  rw [order_unique pv_strictWeak h.r.inc (order_sorted pv_strictWeak s.q.pq)
    ((order_perm _).trans h.r.perm)]

theorem objs_perm (L : List (Entry PV)) : (PosPQ.objs L).Perm (L.map (·.obj)) :=
  (order_perm L).map _

theorem mem_objs {L : List (Entry PV)} {x : Nat} : x ∈ PosPQ.objs L ↔ ∃ e ∈ L, e.obj = x := by
  rw [(objs_perm L).mem_iff]; simp

theorem Zero.sublist {L L' : List (Entry PV)} (h : Zero L) (hs : L'.Sublist L) : Zero L' :=
  fun e he => h e (hs.subset he)

theorem equalPri_of_zero {l L : List (Entry PV)} (hp : l.Perm L) (hz : Zero L) : EqualPri 0 l :=
  fun e he hc => ⟨(hz e (hp.subset he) hc).2.1, (hz e (hp.subset he) hc).2.2⟩

/-- removing the entry with sequence number `e.seq` from a list with distinct sequence numbers
    and distinct objects removes exactly `e.obj` from the objects -/
theorem filter_seq_map_obj (M : List (Entry PV)) (e : Entry PV) (he : e ∈ M)
    (hs : M.Pairwise (fun a b => a.seq ≠ b.seq)) (ho : M.Pairwise (fun a b => a.obj ≠ b.obj)) :
    (M.filter (fun y => y.seq != e.seq)).map (·.obj) = (M.map (·.obj)).erase e.obj := by
  induction M with
  | nil => cases he
  | cons a M ih =>
    have hs' := List.pairwise_cons.mp hs
    have ho' := List.pairwise_cons.mp ho
    by_cases hae : a.seq = e.seq
    · have hea : e = a := by
        rcases List.mem_cons.mp he with h | h
        · exact h
        · exact absurd hae (hs'.1 e h)
      subst hea
      have hf : M.filter (fun y => y.seq != e.seq) = M :=
        List.filter_eq_self.mpr (fun y hy => by simpa using (hs'.1 y hy).symm)
      simp [hf]
    · have heM : e ∈ M := by
        rcases List.mem_cons.mp he with h | h
        · exact absurd (h ▸ rfl) hae
        · exact h
      have hobj : a.obj ≠ e.obj := ho'.1 e heM
      have hk : (a.seq != e.seq) = true := by simpa using hae
      have hfc : (a :: M).filter (fun y => y.seq != e.seq) = a :: M.filter (fun y => y.seq != e.seq) := by
        simp [List.filter_cons, hk]
      rw [hfc]
      simp only [List.map_cons]
      rw [List.erase_cons_tail (by simpa using hobj), ih heM hs'.2 ho'.2]

theorem objs_filter {L : List (Entry PV)} (hinc : L.Pairwise (fun a b => a.seq < b.seq))
    (hnd : (L.map (·.obj)).Nodup) (e : Entry PV) (he : e ∈ L) :
    PosPQ.objs (L.filter (fun y => y.seq != e.seq)) = (PosPQ.objs L).erase e.obj := by
  unfold PosPQ.objs
  rw [order_filter pv_strictWeak hinc]
  apply filter_seq_map_obj _ e ((order_perm L).symm.subset he)
  · have : L.Pairwise (fun a b => a.seq ≠ b.seq) := hinc.imp (fun h => by omega)
    exact ((order_perm L).pairwise_iff (fun h => Ne.symm h)).mpr this
  · have : L.Pairwise (fun a b => a.obj ≠ b.obj) := by
      have := List.pairwise_map.mp (List.nodup_iff_pairwise_ne.mp hnd)
      exact this
    exact ((order_perm L).pairwise_iff (fun h => Ne.symm h)).mpr this

theorem pinv_filter {s' : PosPQ} {L : List (Entry PV)} (p : Entry PV → Bool)
    (hr : PosPQ.RP s' (L.filter p)) (hz : Zero L) (hnd : (L.map (·.obj)).Nodup) : PInv s' :=
  ⟨_, hr, hz.sublist List.filter_sublist, hnd.sublist (List.filter_sublist.map _)⟩

/-! #### append -/

theorem pinv_append (hl : H.Lawful (Entry.lt PV.lt)) (draw : Nat → Rat) (s : PosPQ) (h : PInv s)
    (x : Nat) (hx : x ∉ absP s) :
    PInv (s.appendPri H x 0 draw) ∧ absP (s.appendPri H x 0 draw) = absP s ++ [x] := by
  obtain ⟨L, hr, hz, hnd⟩ := h
  have hR := hr.r.add hl ({ base := 0, insertedAt := s.nIns } : PV) x
  have hzL : Zero (L ++ [⟨{ base := 0, insertedAt := s.nIns }, s.q.seq, x⟩]) := by
    intro e he hc
    rcases List.mem_append.mp he with he | he
    · exact hz e he hc
    · simp at he; subst he; exact ⟨rfl, rfl, rfl⟩
  have hq : (s.appendPri H x 0 draw).q = s.q.add H PV.lt { base := 0, insertedAt := s.nIns } x := by
    unfold PosPQ.appendPri
    exact updateCounters_q_equal 0 _ true draw (equalPri_of_zero hR.perm hzL)
  have hrp : PosPQ.RP (s.appendPri H x 0 draw) (L ++ [⟨{ base := 0, insertedAt := s.nIns }, s.q.seq, x⟩]) := by
    refine ⟨hq ▸ hR, ?_⟩
    intro y hy hc
    rcases List.mem_append.mp hy with hy | hy
    · exact hr.cls0 y hy hc
    · simp at hy; subst hy; rfl
  have hxL : x ∉ L.map (·.obj) := by
    rw [absP_eq hr] at hx
    exact fun hm => hx ((objs_perm L).symm.subset hm)
  refine ⟨⟨_, hrp, hzL, ?_⟩, ?_⟩
  · rw [List.map_append, List.nodup_append]
    refine ⟨hnd, by simp, ?_⟩
    intro a ha b hb
    simp at hb; subst hb
    exact fun e => hxL (e ▸ ha)
  · rw [absP_eq hrp, absP_eq hr]
    unfold PosPQ.objs
    rw [order_append_max pv_strictWeak hR.inc]
    · simp
    · intro y hy
      have hb := hr.r.bound y hy
      by_cases hc : y.pri.cls = 0
      · simp [Entry.lt, PV.lt, hc]
      · obtain ⟨h1, h2, h3⟩ := hz y hy hc
        simp only [Entry.lt, PV.lt, PV.priority, h1, h2, h3]
        simp
        omega

/-! #### popleft -/

theorem pinv_popleft (hl : H.Lawful (Entry.lt PV.lt)) (draw : Nat → Rat) (s : PosPQ) (h : PInv s) :
    (absP s = [] ∧ s.popleft H draw = none) ∨
    ∃ x t s', absP s = x :: t ∧ s.popleft H draw = some (x, s') ∧ PInv s' ∧ absP s' = t := by
  obtain ⟨L, hr, hz, hnd⟩ := h
  rcases hr.popleft hl draw with ⟨rfl, hn⟩ | ⟨e, s', hp, he, hord, hr', _⟩
  · left; exact ⟨by rw [absP_eq hr]; simp [PosPQ.objs, order, Srt.sort], hn⟩
  · right
    refine ⟨e.obj, PosPQ.objs (L.filter (fun y => y.seq != e.seq)), s', ?_, hp,
      pinv_filter _ hr' hz hnd, absP_eq hr'⟩
    rw [absP_eq hr]; unfold PosPQ.objs; rw [hord]; simp

/-! #### find / remove -/

theorem pinv_find (hl : H.Lawful (Entry.lt PV.lt)) (s : PosPQ) (h : PInv s) (key : Nat → Bool) (rm : Bool) :
    ((∀ x ∈ absP s, key x = false) ∧ s.find H key rm = (none, s)) ∨
    ∃ x, x ∈ absP s ∧ key x = true ∧ (s.find H key rm).1 = some x ∧ PInv (s.find H key rm).2 ∧
      absP (s.find H key rm).2 = if rm then (absP s).erase x else absP s := by
  obtain ⟨L, hr, hz, hnd⟩ := h
  have hf := hr.find hl key rm
  rcases hres : s.find H key rm with ⟨o, s'⟩
  rw [hres] at hf
  cases o with
  | none =>
    left
    obtain ⟨rfl, hk⟩ := hf
    refine ⟨?_, rfl⟩
    intro x hx
    rw [absP_eq hr] at hx
    obtain ⟨e, he, rfl⟩ := mem_objs.mp hx
    exact hk e he
  | some x =>
    right
    obtain ⟨e, he, hk, hobj, hrest⟩ := hf
    subst hobj
    refine ⟨e.obj, by rw [absP_eq hr]; exact mem_objs.mpr ⟨e, he, rfl⟩, hk, rfl, ?_⟩
    cases rm with
    | false =>
      simp only [Bool.false_eq_true, if_false] at hrest ⊢
      subst hrest
      exact ⟨⟨L, hr, hz, hnd⟩, rfl⟩
    | true =>
      simp only [if_true] at hrest ⊢
      refine ⟨pinv_filter _ hrest.1 hz hnd, ?_⟩
      rw [absP_eq hrest.1, absP_eq hr, objs_filter hr.r.inc hnd e he]

theorem pinv_remove (hl : H.Lawful (Entry.lt PV.lt)) (draw : Nat → Rat) (s : PosPQ) (h : PInv s) (x : Nat) :
    (x ∉ absP s ∧ s.remove H x draw = none) ∨
    ∃ s', x ∈ absP s ∧ s.remove H x draw = some s' ∧ PInv s' ∧ absP s' = (absP s).erase x := by
  obtain ⟨L, hr, hz, hnd⟩ := h
  have hf := hr.remove hl x draw
  cases hres : s.remove H x draw with
  | none =>
    left
    rw [hres] at hf
    refine ⟨?_, rfl⟩
    rw [absP_eq hr]
    intro hm
    obtain ⟨e, he, hx⟩ := mem_objs.mp hm
    exact hf e he hx
  | some s' =>
    right
    rw [hres] at hf
    obtain ⟨e, he, hobj, hr', _⟩ := hf
    subst hobj
    refine ⟨s', by rw [absP_eq hr]; exact mem_objs.mpr ⟨e, he, rfl⟩, rfl, pinv_filter _ hr' hz hnd, ?_⟩
    rw [absP_eq hr', absP_eq hr, objs_filter hr.r.inc hnd e he]

/-! #### insert (adapted from the lead's `PosPQ.RP.insert`, with the boost factor arbitrary: under
    the priority-0 invariant a maintenance round is the identity) -/

theorem rp_insert_zero (hl : H.Lawful (Entry.lt PV.lt)) {s : PosPQ} {L} (h : PosPQ.RP s L) (hz : Zero L)
    (p x : Nat) (draw : Nat → Rat) :
    ∃ L', PosPQ.RP (s.insert H p x draw) L' ∧ Zero L' ∧
      PosPQ.objs L' = (PosPQ.objs L).insertIdx (min p L.length) x := by
  obtain ⟨es, L1, s1, hpr, hord, hr1, hlen, hf1, hl1, hsub⟩ := h.promote hl draw p []
  simp only [List.nil_append] at hpr
  have hdone : ((es.map (·.obj)).length == p) = false → L1 = [] := by
    intro hne
    have : es.length ≠ p := by simpa using hne
    have : L1.length = 0 := by omega
    exact List.length_eq_zero_iff.mp this
  have hbelow := insert_pv_below hr1 ((es.map (·.obj)).length == p) hdone
  unfold PosPQ.insert
  simp only [hpr]
  generalize hpv : PosPQ.insertPV s1 ((es.map (·.obj)).length == p) = pv at hbelow ⊢
  have hcls : pv.cls = 0 ∧ pv.boost = 0 := by subst hpv; exact ⟨rfl, rfl⟩
  have hR := addAll_R hl pv (es.map (·.obj) ++ [x]) hr1.r
  obtain ⟨N, hN⟩ : ∃ N, N = stamped pv s1.q.seq (es.map (·.obj) ++ [x]) := ⟨_, rfl⟩
  rw [← hN] at hR
  have hNb' : ∀ e ∈ N, e.pri = pv := fun e he => (stamped_bounds pv _ _ e (hN ▸ he)).1
  have hNs : Sorted (Entry.lt PV.lt) N := hN ▸ stamped_sorted pv _ _
  have hNo : N.map (·.obj) = es.map (·.obj) ++ [x] := by rw [hN, stamped_map_obj]
  have hNb : ∀ n ∈ N, ∀ y ∈ L1, Entry.lt PV.lt y n = false := by
    intro n hn y hy
    have hnp := hNb' n hn
    have h1 := hbelow y hy
    have h2 := pv_strictWeak.asymm _ _ h1
    simp [Entry.lt, hnp, h1, h2]
  have hfront := order_append_front pv_strictWeak hR.inc hNs hNb
  have hzLN : Zero (L1 ++ N) := by
    intro e he hc
    rcases List.mem_append.mp he with he | he
    · exact hz e (hsub.subset he) hc
    · rw [hNb' e he] at hc; exact absurd hcls.1 hc
  have hq : (PosPQ.updateCounters H { s1 with q := PosPQ.addAll H pv s1.q (es.map (·.obj) ++ [x]) } true draw).q
      = PosPQ.addAll H pv s1.q (es.map (·.obj) ++ [x]) :=
    updateCounters_q_equal 0 _ true draw (equalPri_of_zero hR.perm hzLN)
  refine ⟨L1 ++ N, ⟨by rw [hq]; exact hR, ?_⟩, hzLN, ?_⟩
  · intro e he hc
    rcases List.mem_append.mp he with he | he
    · exact hr1.cls0 e he hc
    · rw [hNb' e he]; exact hcls.2
  · simp only [PosPQ.objs, hfront, hord, List.map_append, hNo, List.append_assoc]
    have hk : min p L.length = (es.map (·.obj)).length := by simp [hlen]
    rw [hk, insertIdx_append_length]
    simp

theorem objs_length (L : List (Entry PV)) : (PosPQ.objs L).length = L.length := by
  rw [(objs_perm L).length_eq]; simp

theorem pinv_insert (hl : H.Lawful (Entry.lt PV.lt)) (draw : Nat → Rat) (s : PosPQ) (h : PInv s)
    (p x : Nat) (hx : x ∉ absP s) :
    PInv (s.insert H p x draw) ∧
    absP (s.insert H p x draw) = (absP s).insertIdx (min p (absP s).length) x := by
  obtain ⟨L, hr, hz, hnd⟩ := h
  obtain ⟨L', hr', hz', ho⟩ := rp_insert_zero hl hr hz p x draw
  rw [absP_eq hr] at hx ⊢
  rw [absP_eq hr', objs_length]
  refine ⟨⟨L', hr', hz', ?_⟩, ho⟩
  have hnd0 : (PosPQ.objs L).Nodup := (objs_perm L).nodup_iff.mpr hnd
  have : (PosPQ.objs L').Nodup := by
    rw [ho]
    exact nodup_insertIdx _ hnd0 hx (by rw [objs_length]; exact Nat.min_le_right _ _)
  exact (objs_perm L').nodup_iff.mp this

/-! #### the instance -/

theorem pinv_nodup (s : PosPQ) (h : PInv s) : (absP s).Nodup := by
  obtain ⟨L, hr, _, hnd⟩ := h
  rw [absP_eq hr]; exact (objs_perm L).nodup_iff.mpr hnd

theorem pinv_init (factor : Rat) : PInv ({ factor := factor } : PosPQ) ∧ absP ({ factor := factor } : PosPQ) = [] :=
by
  refine ⟨⟨[], ⟨PQ.R.empty, ?_⟩, ?_, ?_⟩, rfl⟩
  · intro e he; cases he
  · intro e he; cases he
  · simp

/-- **the priority loop with equal priorities is list-like** — `PrioritySchedulingMixin` over
    `PosPriorityQueue`, every lawful heapq, every boost factor, every sequence of random draws;
    abstraction = pop order, appends at priority 0. -/
theorem posOps_listLike (hl : H.Lawful (Entry.lt PV.lt)) (draw : Nat → Rat) :
    ListLike (posOps H draw) absP PInv (fun p => p = 0) where
  nodup := pinv_nodup
  len_eq s h := by
    show s.q.pq.length = (absP s).length
    unfold absP; rw [List.length_map, (order_perm _).length_eq]
  append s p x h hp hx := by subst hp; exact pinv_append hl draw s h x hx
  insertPos s p x h hx := pinv_insert hl draw s h p x hx
  callPos s p x h hx := by
    obtain ⟨h1, a1⟩ := pinv_append hl draw s h x hx
    have hmem : x ∈ absP (s.appendPri H x 0 draw) := by rw [a1]; simp
    rcases pinv_remove hl draw _ h1 x with ⟨hn, _⟩ | ⟨s', _, hr, h2, a2⟩
    · exact absurd hmem hn
    · have a2' : absP s' = absP s := by
        rw [a2, a1, List.erase_append_right _ hx]; simp
      have e : (posOps H draw).callPos s p x = s'.insert H p x draw := by
        show (match (s.appendPri H x 0 draw).remove H x draw with
            | some s' => s'.insert H p x draw
            | none => s.appendPri H x 0 draw) = _
        rw [hr]
      have := pinv_insert hl draw s' h2 p x (by rw [a2']; exact hx)
      rw [a2'] at this
      rw [e]
      exact this
  find_none s key rm h hk := by
    rcases pinv_find hl s h key rm with ⟨_, hf⟩ | ⟨x, hx, hkx, _⟩
    · exact hf
    · rw [hk x hx] at hkx; exact absurd hkx (by simp)
  find_some s key rm x h hx hkx hu := by
    rcases pinv_find hl s h key rm with ⟨hn, _⟩ | ⟨y, hy, hky, h1, h2, h3⟩
    · rw [hn x hx] at hkx; exact absurd hkx (by simp)
    · have : y = x := hu y hy hky
      subst this
      exact ⟨h1, h2, h3⟩
  remove_none s x h hx := by
    rcases pinv_remove hl draw s h x with ⟨_, hr⟩ | ⟨s', hm, _⟩
    · exact hr
    · exact absurd hm hx
  remove_some s x h hx := by
    rcases pinv_remove hl draw s h x with ⟨hn, _⟩ | ⟨s', _, hr, h2, a2⟩
    · exact absurd hx hn
    · exact ⟨s', hr, h2, a2⟩
  popleft_nil s h he := by
    rcases pinv_popleft hl draw s h with ⟨_, hn⟩ | ⟨x, t, s', ha, _⟩
    · exact hn
    · rw [he] at ha; cases ha
  popleft_cons s x t h he := by
    rcases pinv_popleft hl draw s h with ⟨hn, _⟩ | ⟨y, t', s', ha, hp, h2, a2⟩
    · rw [he] at hn; cases hn
    · rw [he] at ha
      injection ha with e1 e2
      subst e1; subst e2
      exact ⟨s', hp, h2, a2⟩

end Asynkit.Sched
