/-
Helper lemmas for C12: the head of the waiter queue, and what priority propagation changes.
-/
import Asynkit.Lemmas.C13Step

namespace Asynkit.Lock
open Asynkit.PrioGraph

/-- the head is minimal for the key ... -/
theorem headW_min : ∀ (ws : List Waiter) (h : Waiter), headW ws = some h → ∀ w ∈ ws, ¬ (w.key < h.key)
  | [], h, e, _, hw => by cases hw
  | x :: xs, h, e, w, hw => by
    simp only [headW] at e
    cases hh : headW xs with
    | none =>
      simp [hh] at e; subst e
      have : xs = [] := headW_none xs hh
      subst this; simp at hw; subst hw; grind
    | some h' =>
      simp only [hh] at e
      have ih := headW_min xs h' hh
      by_cases c : h'.key < x.key
      · simp [c] at e; subst e
        rcases List.mem_cons.mp hw with r | r
        · subst r; grind
        · exact ih w r
      · simp [c] at e; subst e
        rcases List.mem_cons.mp hw with r | r
        · subst r; grind
        · have := ih w r; grind

/-- ... and the earliest arrival among the entries with that key: everything queued before it
    is strictly less urgent -/
theorem headW_first : ∀ (ws : List Waiter) (h : Waiter), headW ws = some h →
    ∃ pre post, ws = pre ++ h :: post ∧ ∀ w ∈ pre, h.key < w.key
  | [], h, e => by simp [headW] at e
  | x :: xs, h, e => by
    simp only [headW] at e
    cases hh : headW xs with
    | none => simp [hh] at e; subst e; exact ⟨[], xs, rfl, by simp⟩
    | some h' =>
      simp only [hh] at e
      by_cases c : h'.key < x.key
      · simp [c] at e; subst e
        obtain ⟨pre, post, e1, e2⟩ := headW_first xs h' hh
        refine ⟨x :: pre, post, by rw [e1]; rfl, ?_⟩
        intro w hw
        rcases List.mem_cons.mp hw with r | r
        · subst r; exact c
        · exact e2 w r
      · simp [c] at e; subst e; exact ⟨[], xs, rfl, by simp⟩

theorem headW_equal_keys : ∀ (ws : List Waiter) (c : Rat), (∀ w ∈ ws, w.key = c) → headW ws = ws.head?
  | [], _, _ => rfl
  | x :: xs, c, h => by
    simp only [headW, List.head?_cons]
    cases hh : headW xs with
    | none => rfl
    | some h' =>
      have h1 : h'.key = c := h h' (List.mem_cons_of_mem _ (headW_mem xs h' hh))
      have h2 : x.key = c := h x (by simp)
      have : ¬ (h'.key < x.key) := by rw [h1, h2]; grind
      simp [this]

/-- the wait-for graph does not contain keys: a key-only change leaves every effective priority -/
theorem eff_keyEq {s s' : State} (e : KeyEq s s') (i : Nat) : s'.eff i = s.eff i := by
  have hg : s'.graph = s.graph := by
    simp only [State.graph]
    congr 1
    · funext j; rw [e.prio]
    · funext j; rw [e.holding]
    · funext k
      have := congrArg (List.map (·.1)) (e.wl k)
      simpa [State.wl, wt, List.map_map, Function.comp_def] using this
  simp only [State.eff, hg, e.fuel]

theorem mem_rekey {ws : List Waiter} {i : Nat} {p : Rat} {w : Waiter} (hw : w ∈ rekey ws i p)
    (e : w.task = i) : w.key = p := by
  simp only [rekey, List.mem_map] at hw
  obtain ⟨v, _, hv⟩ := hw
  by_cases c : v.task = i
  · simp [c] at hv; subst hv; rfl
  · simp [c] at hv; subst hv; exact absurd e c

theorem rekey_tasks (ws : List Waiter) (i : Nat) (p : Rat) : (rekey ws i p).map (·.task) = ws.map (·.task) := by
  induction ws with
  | nil => rfl
  | cons w ws ih =>
    simp only [rekey, List.map_cons, List.map_map] at *
    rw [ih]; by_cases h : w.task = i <;> simp [h]

end Asynkit.Lock
