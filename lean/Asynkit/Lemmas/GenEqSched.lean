/-
C08 / C10 — the synchronous scheduling code regenerated from /repo/src on every run by
`translator/sched2lean.py` (`Asynkit/Gen/SchedOps.lean`) is equal to the hand-written model
definitions the theorems of Props/C08.lean and Props/C10.lean are about (`Model/Sched.lean`:
`taskReinsert`, `sleepInsertPre`, `taskSwitchEnd/At`, `descend`, `start`, `listOps`, `posOps`,
`gpH`).  If the code changes, the generated text changes: a harmless rewrite still proves,
anything else breaks one of these equalities (a broken proof obligation).
-/
import Asynkit.Gen.SchedOps
import Asynkit.Lemmas.GenEqC08

namespace Asynkit.GenEqSched
open Asynkit Asynkit.Sched

/-! ### scheduling.py -/
section sched
variable {Q : Type} (O : QOps Q)

/-- `_task_reinsert` = `Sched.taskReinsert` (subject of `C08.taskReinsert_spec`, `reinsert_not_runnable`) -/
theorem taskReinsert_eq (q : Q) (isTask : Nat → Bool) (pos : Nat) :
    Gen.taskReinsert O q isTask pos = Sched.taskReinsert O q isTask pos := by
  unfold Gen.taskReinsert Sched.taskReinsert
  rcases O.find q isTask true with ⟨h, q'⟩
  cases h <;> rfl

/-- the public `task_reinsert(task, pos)` is `_task_reinsert` on the running loop -/
theorem taskReinsertApi_eq (q : Q) (isTask : Nat → Bool) (pos : Nat) :
    Gen.taskReinsertApi O q isTask pos = Sched.taskReinsert O q isTask pos := by
  unfold Gen.taskReinsertApi
  rw [taskReinsert_eq]
  cases Sched.taskReinsert O q isTask pos <;> rfl

/-- `_sleep_insert(loop, pos)`: never raises; the queue is `Sched.sleepInsertPre`; exactly one
    callback was scheduled: `task_reinsert(current_task, pos)` on the handle placed at position 0 -/
theorem sleepInsertInner_eq (q : Q) (pos me hcb hme : Nat) (pri : Rat) :
    Gen.sleepInsertInner O q pos me hcb hme pri
      = some (Sched.sleepInsertPre O q hcb hme pri, [(hcb, HK.reins me pos)]) := by
  unfold Gen.sleepInsertInner Sched.sleepInsertPre
  rfl

theorem sleepInsert_eq (q : Q) (pos me hcb hme : Nat) (pri : Rat) :
    Gen.sleepInsert O q pos me hcb hme pri
      = some (Sched.sleepInsertPre O q hcb hme pri, [(hcb, HK.reins me pos)]) := by
  unfold Gen.sleepInsert
  rw [sleepInsertInner_eq]
  rfl

/-- `task_switch(task)` (insert_pos=None) = `Sched.taskSwitchEnd`, no callback -/
theorem taskSwitch_none_eq (q : Q) (isTask : Nat → Bool) (me hcb hme : Nat) (pri : Rat) :
    Gen.taskSwitch O q isTask none me hcb hme pri
      = (Sched.taskSwitchEnd O q isTask hme pri).map (fun q' => (q', [])) := by
  unfold Gen.taskSwitch Sched.taskSwitchEnd
  rw [taskReinsert_eq]
  cases Sched.taskReinsert O q isTask 0 <;> rfl

/-- `task_switch(task, insert_pos=p)` = `_task_reinsert(task, 0)` then `Sched.sleepInsertPre`,
    with the `task_reinsert(me, p)` callback -/
theorem taskSwitch_some_eq (q : Q) (isTask : Nat → Bool) (p me hcb hme : Nat) (pri : Rat) :
    Gen.taskSwitch O q isTask (some p) me hcb hme pri
      = (Sched.taskReinsert O q isTask 0).map
          (fun q' => (Sched.sleepInsertPre O q' hcb hme pri, [(hcb, HK.reins me p)])) := by
  unfold Gen.taskSwitch
  rw [taskReinsert_eq]
  cases Sched.taskReinsert O q isTask 0 with
  | none => rfl
  | some q' => simp only [sleepInsertInner_eq]; rfl

/-- what the loop does with the callback of a `sleep_insert`: pops it (it must be at the head) and
    runs `task_reinsert(me, p)` — the generated one -/
def runCallback (r : Q × List (Nat × HK)) (hcb : Nat) (isMe : Nat → Bool) (p : Nat) : Option Q :=
  match O.popleft r.1 with
  | none => none
  | some (h, q') => if h == hcb then Gen.taskReinsertApi O q' isMe p else none

/-- the model's `taskSwitchAt` (subject of `C08.taskSwitchAt_spec`) is: generated `task_switch`,
    then the loop running the generated `task_reinsert` callback -/
theorem taskSwitchAt_eq (q : Q) (isTask isMe : Nat → Bool) (p me hcb hme : Nat) (pri : Rat) :
    Sched.taskSwitchAt O q isTask hcb hme pri isMe p
      = (Gen.taskSwitch O q isTask (some p) me hcb hme pri).bind (fun r => runCallback O r hcb isMe p) := by
  rw [taskSwitch_some_eq]
  unfold Sched.taskSwitchAt
  cases Sched.taskReinsert O q isTask 0 with
  | none => rfl
  | some q' =>
    simp only [Option.map, Option.bind, runCallback, Sched.sleepInsert, taskReinsertApi_eq]
    generalize O.popleft (sleepInsertPre O q' hcb hme pri) = r
    cases r with
    | none => rfl
    | some x => cases x; rfl

/-- likewise `Sched.sleepInsert` (subject of `C08.sleepInsert_spec`) -/
theorem sleepInsertRun_eq (q : Q) (isMe : Nat → Bool) (p me hcb hme : Nat) (pri : Rat) :
    Sched.sleepInsert O q hcb hme pri isMe p
      = (Gen.sleepInsert O q p me hcb hme pri).bind (fun r => runCallback O r hcb isMe p) := by
  rw [sleepInsert_eq]
  simp only [Option.bind, runCallback, Sched.sleepInsert, taskReinsertApi_eq]
  generalize O.popleft (sleepInsertPre O q hcb hme pri) = r
  cases r with
  | none => rfl
  | some x => cases x; rfl

/-- `create_task_descend` (subject of `C08.descend_spec`) -/
theorem createTaskDescend_eq (q : Q) (isNew isMe : Nat → Bool) (hnew me hcb hme : Nat) (priNew pri : Rat) :
    Sched.descend O q hnew priNew isNew hcb hme pri isMe
      = (Gen.createTaskDescend O q isNew hnew priNew me hcb hme pri).bind
          (fun r => runCallback O r hcb isMe 1) := by
  unfold Sched.descend Gen.createTaskDescend
  rw [taskSwitchAt_eq O _ isNew isMe 1 me]
  dsimp only
  cases Gen.taskSwitch O (O.append q priNew hnew) isNew (some 1) me hcb hme pri with
  | none => rfl
  | some r => obtain ⟨q', cbs⟩ := r; rfl

/-- `create_task_start` = `Sched.start`, no callback -/
theorem createTaskStart_eq (q : Q) (isNew : Nat → Bool) (hnew me hcb hme : Nat) (priNew pri : Rat) :
    Gen.createTaskStart O q isNew hnew priNew me hcb hme pri
      = some (Sched.start O q hnew priNew hme pri, []) := by
  unfold Gen.createTaskStart Sched.start
  rfl

/-- loop/extensions.py wrappers are the loop's own operations -/
theorem ready_wrappers_eq (q : Q) (gp : Nat → Rat) (h : Nat) (isTask : Nat → Bool) (rm : Bool) :
    Gen.readyLen O q = O.len q ∧ Gen.readyRemove O q h = O.remove q h ∧
    Gen.readyFind O q isTask rm = O.find q isTask rm ∧ Gen.readyInsert O gp q h = O.append q (gp h) h :=
  ⟨rfl, rfl, rfl, rfl⟩

end sched

/-! ### the deque loops: SchedulingLoopHelper and SchedulingMixin are `Sched.listOps` -/

theorem queueRemove_eq (q : List Nat) (h : Nat) : Gen.queueRemove q h = Deque.queueRemove q h := rfl

theorem helper_eq_listOps (q : List Nat) (h pos : Nat) (key : Nat → Bool) (rm : Bool) (p : Rat) :
    Gen.Helper.queueLen q = listOps.len q ∧
    Gen.Helper.queueItems q = listOps.items q ∧
    Gen.Helper.queueFind q key rm = some (listOps.find q key rm) ∧
    Gen.Helper.queueInsert q h = listOps.append q p h ∧
    Gen.Helper.queueInsertPos q h (pos : Int) = listOps.insertPos q pos h ∧
    Gen.Helper.queueRemove q h = listOps.remove q h ∧
    Gen.Helper.callPos q (pos : Int) h = some (listOps.callPos q pos h) :=
  ⟨rfl, rfl, GenEqC08.queueFind_eq q key rm, rfl, rfl, rfl, GenEqC08.callPos_eq q pos h⟩

theorem mixin_eq_listOps (q : List Nat) (h pos : Nat) (key : Nat → Bool) (rm : Bool) (p : Rat) :
    Gen.Mixin.queueLen q = listOps.len q ∧
    Gen.Mixin.queueItems q = listOps.items q ∧
    Gen.Mixin.queueFind q key rm = some (listOps.find q key rm) ∧
    Gen.Mixin.queueInsert q h = listOps.append q p h ∧
    Gen.Mixin.queueInsertPos q h (pos : Int) = listOps.insertPos q pos h ∧
    Gen.Mixin.queueRemove q h = listOps.remove q h ∧
    Gen.Mixin.callPos q (pos : Int) h = some (listOps.callPos q pos h) :=
  ⟨rfl, rfl, GenEqC08.queueFind_eq q key rm, rfl, rfl, rfl, GenEqC08.callPos_eq q pos h⟩

/-! ### the priority loop: PrioritySchedulingMixin is `Sched.posOps` -/
section prio
variable (H : HeapLib (Entry PV)) (draw : Nat → Rat)

theorem prioMixin_eq_posOps (s : PosPQ) (h pos : Nat) (key : Nat → Bool) (rm : Bool) (gp : Nat → Rat) :
    Gen.PrioMixin.queueLen s = (posOps H draw).len s ∧
    Gen.PrioMixin.queueItems s = (posOps H draw).items s ∧
    Gen.PrioMixin.queueFind H s key rm = (posOps H draw).find s key rm ∧
    Gen.PrioMixin.queueInsert H draw gp s h = (posOps H draw).append s (gp h) h ∧
    Gen.PrioMixin.queueInsertPos H draw s h pos = (posOps H draw).insertPos s pos h ∧
    Gen.PrioMixin.queueRemove H draw s h = (posOps H draw).remove s h :=
  ⟨rfl, rfl, rfl, rfl, rfl, rfl⟩

/-- `call_pos` of the priority loop for a callback handle (`get_priority(handle) = 0.0`): the
    model's `posOps.callPos` (whose fallback for an impossible ValueError is never observed) -/
theorem prioMixin_callPos_eq (s : PosPQ) (pos h : Nat) (gp : Nat → Rat) (h0 : gp h = 0) :
    (Gen.PrioMixin.callPos H draw gp s pos h).getD (s.appendPri H h 0 draw) = (posOps H draw).callPos s pos h := by
  unfold Gen.PrioMixin.callPos Gen.PrioMixin.queueInsert Gen.PrioMixin.queueRemove Gen.PrioMixin.queueInsertPos
  show _ = (match (s.appendPri H h 0 draw).remove H h draw with
            | some s' => s'.insert H pos h draw
            | none => s.appendPri H h 0 draw)
  simp only [PosPQ.append, h0]
  cases (s.appendPri H h 0 draw).remove H h draw <;> rfl

/-- `task_reschedule` = `posOps.resched` for a PriorityTask, nothing for a plain Task -/
theorem prioMixin_taskReschedule_eq (s : PosPQ) (key : Nat → Bool) (p : Rat) :
    Gen.PrioMixin.taskReschedule H s (some p) key = (posOps H draw).resched s key p ∧
    Gen.PrioMixin.taskReschedule H s none key = s :=
  ⟨rfl, rfl⟩

end prio

/-- what `get_priority` sees of a handle in the interpreter's world -/
def taskOfHandle {Q : Type} (w : World Q) (h : Nat) : Option (Option Rat) :=
  match w.handles[h]? with
  | some (.step t) => some (if w.tasks[t]!.prioKind then some (effT w effFuel t) else none)
  | _ => none

/-- `get_priority(handle)` = `Sched.gpH`: effective priority of a PriorityTask's step handle, 0.0
    for plain Tasks and callbacks -/
theorem getPriority_eq {Q : Type} (w : World Q) (h : Nat) :
    Gen.PrioMixin.getPriority (taskOfHandle w h) = gpH w h := by
  unfold Gen.PrioMixin.getPriority taskOfHandle gpH
  cases hh : w.handles[h]? with
  | none => rfl
  | some k =>
    cases k with
    | step t => by_cases hp : w.tasks[t]!.prioKind <;> simp [hp]
    | cb k => rfl
    | reins t q => rfl
    | bound t k => rfl

end Asynkit.GenEqSched
