/-
`await_sync`, `syncfunction`, `aiter_sync` as regenerated from coroutine.py (Gen/Wrappers.lean) equal the
hand-written model (Model/Wrappers.lean: `awaitSync`, `aiterSync`) that the C05 theorems are about.
-/
import Asynkit.Gen.Wrappers
import Asynkit.Lemmas.C02

namespace Asynkit.GenEqC05
open Asynkit.Proto Asynkit.Gen.Wrappers

variable {ι : Type}

/-- how the exit of the translated `await_sync` reads as the model's result record -/
def toSync {σ : Type} : Exit Empty Unit (CS σ) → SyncResult σ
  | .returned v cs => { out := .ret v, cause := none, coro := cs.coro }
  | .raised e c cs => { out := .raise e, cause := c.map Out.raise, coro := cs.coro }
  | .suspend y _ => nomatch y

theorem cs_newAt_init (I : Obj ι) : CS.newAt I I.init = CS.new I := rfl

/-- `await_sync(coro)` -/
theorem await_sync_eq (I : Obj ι) : toSync (await_sync I I.init) = awaitSync I := by
  rcases h : I.send I.init 0 with ⟨s1, o⟩
  rcases o with y | v | e
  · -- suspended: abort, then close
    rcases ht : I.throw s1 .syncAbort with ⟨s2, ot⟩
    rcases hc : I.close s2 with ⟨s3, oc⟩
    rcases ot with y2 | v2 | e2
    · rcases oc with y3 | v3 | e3 <;>
        simp [await_sync, awaitSync, toSync, CS.newAt, CS.new, CS.done, CS.pyResult, CS.result, CS.pyThrow,
          CS.throwSync, CS.pyClose, CS.closeSync, SR.ofOut, callVal, callUnit, normStop, excSyncError, h, ht, hc]
    · rcases oc with y3 | v3 | e3 <;>
        simp [await_sync, awaitSync, toSync, CS.newAt, CS.new, CS.done, CS.pyResult, CS.result, CS.pyThrow,
          CS.throwSync, CS.pyClose, CS.closeSync, SR.ofOut, callVal, callUnit, normStop, excSyncError, h, ht, hc]
    · rcases oc with y3 | v3 | e3 <;> cases e2 <;>
        simp [await_sync, awaitSync, toSync, CS.newAt, CS.new, CS.done, CS.pyResult, CS.result, CS.pyThrow,
          CS.throwSync, CS.pyClose, CS.closeSync, SR.ofOut, callVal, callUnit, normStop, excSyncError, h, ht, hc]
  · simp [await_sync, awaitSync, toSync, CS.newAt, CS.new, CS.done, CS.pyResult, CS.result, SR.ofOut, callVal, h]
  · cases e <;>
    simp [await_sync, awaitSync, toSync, CS.newAt, CS.new, CS.done, CS.pyResult, CS.result, SR.ofOut, callVal, h]

/-- `syncfunction(f)(...)` is `await_sync(f(...))` -/
theorem syncfunction_eq (I : Obj ι) : toSync (syncfunction_wrapper I) = awaitSync I := await_sync_eq I

/-! ### aiter_sync -/

/-- what a consumer sees who calls `next()` `n` more times after the call that ended in `x` -/
def consume (A : AIter) : Nat → Exit Val A.τ A.τ → List Val × IterEnd
  | _, .returned _ _ => ([], .stop)
  | _, .raised e c _ => ([], .error e (c.map Out.raise))
  | 0, .suspend v _ => ([v], .more)
  | n + 1, .suspend v t =>
    let r := consume A n (aiter_sync_resume A t (.send 0))
    (v :: r.1, r.2)

/-- the first `next()` and every later one run the same code -/
theorem aiter_sync_start_eq_resume (A : AIter) (t : A.τ) (v : Val) :
    aiter_sync_start A t = aiter_sync_resume A t (.send v) := rfl

/-- one `next()` of the translated generator, in terms of the model's `awaitSync` -/
theorem aiter_sync_step (A : AIter) (t : A.τ) (v : Val) :
    aiter_sync_resume A t (.send v) =
      (match (awaitSync (nativeAwaitO (coroObj (A.anext t) id))).out,
             (awaitSync (nativeAwaitO (coroObj (A.anext t) id))).cause with
       | .ret w, _ => .suspend w (A.upd t (bodyOf (awaitSync (nativeAwaitO (coroObj (A.anext t) id))).coro).body)
       | .raise .stopAsync, _ => .returned 0 t
       | .raise e, c => .raised e (match c with | some (.raise x) => some x | _ => none) t
       | .yield _, _ => .returned 0 t) := by
  have h := await_sync_eq (Obj.pyAsyncReturnAwait (AIter.anextObj A t))
  simp only [Obj.pyAsyncReturnAwait, AIter.anextObj] at h
  simp only [aiter_sync_resume, Obj.pyAsyncReturnAwait, AIter.anextObj]
  rcases hx : await_sync (nativeAwaitO (coroObj (A.anext t) id)) (nativeAwaitO (coroObj (A.anext t) id)).init
    with ⟨y, s⟩ | ⟨w, cs⟩ | ⟨e, c, cs⟩
  · exact nomatch y
  · rw [hx] at h
    simp only [toSync] at h
    rw [← h]
    simp [AIter.advance, Obj.pyAsyncReturnAwait, AIter.anextObj]
  · rw [hx] at h
    simp only [toSync] at h
    rw [← h]
    cases e <;> cases c <;> simp

/-- `await_sync` never "yields", and a cause is always an exception -/
theorem awaitSync_shape (I : Obj ι) :
    (∃ v, (awaitSync I).out = .ret v ∧ (awaitSync I).cause = none) ∨
    (∃ e, (awaitSync I).out = .raise e ∧
      ((awaitSync I).cause = none ∨ ∃ x, (awaitSync I).cause = some (.raise x))) := by
  rw [← await_sync_eq I]
  rcases await_sync I I.init with ⟨y, s⟩ | ⟨w, cs⟩ | ⟨e, c, cs⟩
  · exact nomatch y
  · exact Or.inl ⟨w, rfl, rfl⟩
  · refine Or.inr ⟨e, rfl, ?_⟩
    cases c with
    | none => exact Or.inl rfl
    | some x => exact Or.inr ⟨x, rfl⟩

/-- the model's `aiter_sync` consumed by `n+1` calls of `next()` is the translated generator consumed
    the same way: first `next()` = the `start` segment, every later one = the `resume` segment -/
theorem aiter_sync_eq (A : AIter) : ∀ n t, aiterSync A (n + 1) t = consume A n (aiter_sync_start A t) := by
  intro n
  induction n with
  | zero =>
    intro t
    rw [aiter_sync_start_eq_resume A t 0, aiter_sync_step]
    simp only [aiterSync]
    rcases awaitSync_shape (nativeAwaitO (coroObj (A.anext t) id)) with ⟨v, ho, hc⟩ | ⟨e, ho, hc⟩
    · simp [ho, hc, consume]
    · rcases hc with hc | ⟨x, hc⟩ <;> cases e <;> simp [ho, hc, consume]
  | succ n ih =>
    intro t
    rw [aiter_sync_start_eq_resume A t 0, aiter_sync_step]
    rw [aiterSync]
    rcases awaitSync_shape (nativeAwaitO (coroObj (A.anext t) id)) with ⟨v, ho, hc⟩ | ⟨e, ho, hc⟩
    · simp only [ho, hc, consume]
      rw [← aiter_sync_start_eq_resume A _ 0, ← ih]
    · rcases hc with hc | ⟨x, hc⟩ <;> cases e <;> simp [ho, hc, consume]

end Asynkit.GenEqC05
