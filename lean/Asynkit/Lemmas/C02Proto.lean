/-
Erasure: the shared reference `Proto.nativeAwait b` (a `Body` over `CState b.σ`, run under
`Proto.Coro`) and the object-level reference `nativeAwaitO (ofBody b)` used by the C02/C05 proofs
produce the same outputs for every drive list.  The state map forgets the body state that
`EState.done` keeps (`EState.erase`), at both envelope levels.
-/
import Asynkit.Lemmas.C02

namespace Asynkit.Proto

/-- `Proto.Coro` around a body, as an object (no view). -/
def protoObj (B : Body) : Obj Unit where
  σ := CState B.σ
  init := Coro.start B
  send := Coro.send B
  throw := Coro.throw B
  close := Coro.close B
  view := fun _ => ()

/-- outputs of a drive list on the coroutine object `Proto.Coro` makes of a body -/
def protoOuts (B : Body) (ds : List Drive) : List Out := (protoObj B).outs (protoObj B).init ds

/-- simulation principle for outputs only (the two objects may have different views) -/
theorem outs_eq_of_sim {ι κ : Type} (I : Obj ι) (J : Obj κ) (R : I.σ → J.σ → Prop)
    (h : ∀ s t d, R s t → (I.step s d).2 = (J.step t d).2 ∧
      (∀ y, (I.step s d).2 = .yield y → R (I.step s d).1 (J.step t d).1)) :
    ∀ ds s t, R s t → I.outs s ds = J.outs t ds := by
  intro ds
  induction ds with
  | nil => intros; rfl
  | cons d ds ih =>
    intro s t hR
    obtain ⟨ho, hn⟩ := h s t d hR
    simp only [Obj.outs] at ih ⊢
    rw [run_cons, run_cons, ← ho]
    cases hq : (I.step s d).2 with
    | yield y => simp only [List.map_cons]; rw [ih _ _ (hn y hq)]
    | ret v => rfl
    | raise e => rfl

/-! ### one envelope level: `Proto.Coro` vs `envObj .coro`, related by a state map -/

def emap {σ₁ σ₂ : Type} (f : σ₂ → σ₁) : EState σ₂ → CState σ₁
  | .created s => .created (f s)
  | .susp s => .susp (f s)
  | .done _ => .done

theorem after_emap {B₁ B₂ : Body} (f : B₂.σ → B₁.σ) (r : B₂.σ × Out) :
    Coro.after B₁ (f r.1, r.2) = (emap f (envAfter r).1, (envAfter r).2) := by
  obtain ⟨s, o⟩ := r
  rcases o with y | v | e
  · rfl
  · rfl
  · cases e <;> rfl

/-- if the bodies step alike through `f` at the state the object holds, so do the coroutine
    objects, method by method.  (Only a suspended object passes a `throw` on to its body, so the
    throw hypothesis is only needed there.) -/
theorem env_methods {ι : Type} (B₁ B₂ : Body) (view : B₂.σ → ι) (f : B₂.σ → B₁.σ)
    (st : EState B₂.σ)
    (hS : ∀ v, B₁.resume (f st.body) (.send v)
        = (f (B₂.resume st.body (.send v)).1, (B₂.resume st.body (.send v)).2))
    (hT : ∀ s, st = .susp s → ∀ e, B₁.resume (f s) (.throw e)
        = (f (B₂.resume s (.throw e)).1, (B₂.resume s (.throw e)).2)) :
    (∀ v, Coro.send B₁ (emap f st) v
        = (emap f ((coroObj B₂ view).send st v).1, ((coroObj B₂ view).send st v).2)) ∧
    (∀ e, Coro.throw B₁ (emap f st) e
        = (emap f ((coroObj B₂ view).throw st e).1, ((coroObj B₂ view).throw st e).2)) ∧
    Coro.close B₁ (emap f st)
        = (emap f ((coroObj B₂ view).close st).1, ((coroObj B₂ view).close st).2) := by
  cases st with
  | created s =>
    refine ⟨?_, ?_, ?_⟩
    · intro v
      by_cases hv : v = 0
      · subst hv
        have h0 := hS 0
        simp only [EState.body] at h0
        simp only [emap, Coro.send, coroObj, envObj]
        simp only [ne_eq, not_true_eq_false, ↓reduceIte]
        rw [h0]; exact after_emap f _
      · simp [emap, Coro.send, coroObj, envObj, hv]
    · intro e; rfl
    · rfl
  | susp s =>
    have hT' := hT s rfl
    simp only [EState.body] at hS
    refine ⟨?_, ?_, ?_⟩
    · intro v
      simp only [emap, Coro.send, coroObj, envObj]
      rw [hS]; exact after_emap f _
    · intro e
      simp only [emap, Coro.throw, coroObj, envObj]
      rw [hT']; exact after_emap f _
    · simp only [emap, Coro.close, coroObj, envObj]
      rw [hT', after_emap f]
      rcases h : envAfter (B₂.resume s (.throw .genExit)) with ⟨st', o⟩
      rcases o with y | v | e
      · rfl
      · rfl
      · cases e <;> rfl
  | done s =>
    refine ⟨?_, ?_, ?_⟩
    · intro v; rfl
    · intro e; rfl
    · rfl

/-- hence equal outputs for every drive list.  `Inv` is an invariant of the body states a
    *suspended* object can hold (it may leave out states that cannot occur there). -/
theorem env_outs_eq {ι : Type} (B₁ B₂ : Body) (view : B₂.σ → ι) (f : B₂.σ → B₁.σ) (Inv : B₂.σ → Prop)
    (hS : ∀ s v, B₁.resume (f s) (.send v) = (f (B₂.resume s (.send v)).1, (B₂.resume s (.send v)).2))
    (hT : ∀ s e, Inv s → B₁.resume (f s) (.throw e)
        = (f (B₂.resume s (.throw e)).1, (B₂.resume s (.throw e)).2))
    (hI : ∀ s r y, (B₂.resume s r).2 = .yield y → Inv (B₂.resume s r).1)
    (hinit : B₁.init = f B₂.init) (ds : List Drive) :
    protoOuts B₁ ds = (coroObj B₂ view).outs (coroObj B₂ view).init ds := by
  refine outs_eq_of_sim (protoObj B₁) (coroObj B₂ view)
    (fun a t => a = emap f t ∧ ∀ s, t = .susp s → Inv s) ?_ ds _ _ ?_
  · intro a t d hR
    obtain ⟨ha, hinv⟩ := hR
    subst ha
    obtain ⟨hs, ht, hc⟩ := env_methods B₁ B₂ view f t (fun v => hS _ v)
      (fun s hs e => hT s e (hinv s hs))
    -- a yielded successor state is `susp` of a body state reached by a yielding resume
    have hsucc : ∀ (r : B₂.σ × Out) y, (envAfter r).2 = .yield y → ∀ s', (envAfter r).1 = .susp s' → s' = r.1 := by
      intro r y _ s' h
      obtain ⟨s0, o⟩ := r
      rcases o with y' | v | e
      · simpa [envAfter] using h.symm
      · simp [envAfter] at h
      · cases e <;> simp [envAfter] at h
    have hyield : ∀ (r : B₂.σ × Out) y, (envAfter r).2 = .yield y → r.2 = .yield y := by
      intro r y h
      obtain ⟨s0, o⟩ := r
      rcases o with y' | v | e
      · simpa [envAfter] using h
      · simp [envAfter] at h
      · cases e <;> simp [envAfter] at h
    cases d with
    | send v =>
      simp only [Obj.step, protoObj]
      rw [hs v]
      refine ⟨rfl, fun y hy => ⟨rfl, ?_⟩⟩
      intro s' hs'
      cases t with
      | created s =>
        by_cases hv : v = 0
        · subst hv
          simp only [coroObj, envObj, ne_eq, not_true_eq_false, ↓reduceIte] at hy hs'
          rw [hsucc _ y hy s' hs']
          exact hI _ _ y (hyield _ y hy)
        · simp [coroObj, envObj, hv] at hs'
      | susp s =>
        simp only [coroObj, envObj] at hy hs'
        rw [hsucc _ y hy s' hs']
        exact hI _ _ y (hyield _ y hy)
      | done s => simp [coroObj, envObj] at hs'
    | throw e =>
      simp only [Obj.step, protoObj]
      rw [ht e]
      refine ⟨rfl, fun y hy => ⟨rfl, ?_⟩⟩
      intro s' hs'
      cases t with
      | created s => simp [coroObj, envObj] at hs'
      | susp s =>
        simp only [coroObj, envObj] at hy hs'
        rw [hsucc _ y hy s' hs']
        exact hI _ _ y (hyield _ y hy)
      | done s => simp [coroObj, envObj] at hs'
    | close =>
      simp only [Obj.step, protoObj]
      rw [hc]
      refine ⟨rfl, fun y hy => ⟨rfl, ?_⟩⟩
      intro s' hs'
      cases t with
      | created s => simp [coroObj, envObj] at hs'
      | done s => simp [coroObj, envObj] at hs'
      | susp s =>
        exfalso
        simp only [coroObj, envObj] at hy
        rcases h : envAfter (B₂.resume s (.throw .genExit)) with ⟨st', o⟩
        rw [h] at hy
        rcases o with y' | v | e'
        · simp [envClosed] at hy
        · simp [envClosed] at hy
        · cases e' <;> simp [envClosed] at hy
  · refine ⟨?_, ?_⟩
    · show Coro.start B₁ = emap f (EState.created B₂.init)
      simp [Coro.start, emap, hinit]
    · intro s h
      exact absurd h (by intro h'; cases h')

/-! ### the two references -/

/-- a coroutine object never reports a raw StopIteration (PEP 479) … -/
theorem envAfter_normStop {σ : Type} (r : σ × Out) : normStop (envAfter r).2 = (envAfter r).2 := by
  obtain ⟨s, o⟩ := r
  rcases o with y | v | e
  · rfl
  · rfl
  · cases e <;> rfl

/-- a suspended native await never holds a not-yet-started inner coroutine -/
def InnerStarted {σ : Type} (st : EState σ) : Prop := ∀ s, st ≠ .created s

macro "psimp" "[" ts:Lean.Parser.Tactic.simpLemma,* "]" : tactic =>
  `(tactic| simp [nativeAwait, nativeAwaitB, ofBody, coroObj, envObj, Coro.send, Coro.throw, Coro.close,
      Coro.after, envAfter, envClosed, EState.erase, normStop, $ts,*])

/-- `Proto.nativeAwait b` and `nativeAwaitB (ofBody b)` step alike through `EState.erase`
    (for a throw: when the inner coroutine has been started, which is always the case where a
    throw can reach the body) -/
theorem nativeAwait_resume_erase (b : Body) (st : EState b.σ) (r : Resume)
    (hst : (∃ v, r = .send v) ∨ InnerStarted st := by first | exact Or.inl ⟨_, rfl⟩ | assumption) :
    (nativeAwait b).resume (EState.erase st) r
      = (EState.erase ((nativeAwaitB (ofBody b)).resume st r).1, ((nativeAwaitB (ofBody b)).resume st r).2) := by
  cases st with
  | created s =>
    cases r with
    | send v =>
      by_cases hv : v = 0
      · subst hv
        rcases h : b.resume s (.send 0) with ⟨s', o⟩
        rcases o with y | w | e
        · psimp [h]
        · psimp [h]
        · cases e <;> psimp [h]
      · psimp [hv]
    | throw e =>
      rcases hst with ⟨v, hv⟩ | hs
      · cases hv
      · exact absurd rfl (hs s)
  | susp s =>
    cases r with
    | send v =>
      rcases h : b.resume s (.send v) with ⟨s', o⟩
      rcases o with y | w | e
      · psimp [h]
      · psimp [h]
      · cases e <;> psimp [h]
    | throw e =>
      rcases h : b.resume s (.throw e) with ⟨s', o⟩
      rcases o with y | w | e'
      · cases e <;> psimp [h]
      · cases e <;> psimp [h]
      · cases e' <;> cases e <;> psimp [h]
  | done s =>
    cases r with
    | send v => psimp []
    | throw e => cases e <;> psimp []

macro "psimp_all" : tactic =>
  `(tactic| simp_all [nativeAwait, nativeAwaitB, ofBody, coroObj, envObj, Coro.send, Coro.throw, Coro.close,
      Coro.after, envAfter, envClosed, EState.erase, normStop])

theorem nativeAwaitB_yield_started (b : Body) (st : EState b.σ) (r : Resume) (y : Y)
    (h : ((nativeAwaitB (ofBody b)).resume st r).2 = .yield y) :
    InnerStarted ((nativeAwaitB (ofBody b)).resume st r).1 := by
  intro s0 hc
  cases st with
  | created s =>
    cases r with
    | send v =>
      by_cases hv : v = 0
      · subst hv
        rcases hh : b.resume s (.send 0) with ⟨s', o⟩
        rcases o with y' | w | e
        · psimp_all
        · psimp_all
        · cases e <;> psimp_all
      · psimp_all
    | throw e => cases e <;> psimp_all
  | susp s =>
    cases r with
    | send v =>
      rcases hh : b.resume s (.send v) with ⟨s', o⟩
      rcases o with y' | w | e
      · psimp_all
      · psimp_all
      · cases e <;> psimp_all
    | throw e =>
      rcases hh : b.resume s (.throw e) with ⟨s', o⟩
      rcases o with y' | w | e'
      · cases e <;> psimp_all
      · cases e <;> psimp_all
      · cases e' <;> cases e <;> psimp_all
  | done s =>
    cases r with
    | send v => psimp_all
    | throw e => cases e <;> psimp_all

/-- **Erasure.**  For every body and every drive list, the coroutine object of the shared reference
    `Proto.nativeAwait b` and the object-level reference `nativeAwaitO (ofBody b)` give the same
    outputs. -/
theorem proto_nativeAwait_outs (b : Body) (ds : List Drive) :
    protoOuts (nativeAwait b) ds
      = (nativeAwaitO (ofBody b)).outs (nativeAwaitO (ofBody b)).init ds :=
  env_outs_eq (nativeAwait b) (nativeAwaitB (ofBody b)) (ofBody b).view EState.erase InnerStarted
    (fun s v => nativeAwait_resume_erase b s (.send v) (Or.inl ⟨v, rfl⟩))
    (fun s e hs => nativeAwait_resume_erase b s (.throw e) (Or.inr hs))
    (nativeAwaitB_yield_started b) rfl ds

end Asynkit.Proto

namespace Asynkit.Proto

theorem outs_of_run_eq {ι : Type} {I J : Obj ι} {s : I.σ} {t : J.σ} {ds : List Drive}
    (h : I.run s ds = J.run t ds) : I.outs s ds = J.outs t ds := by
  simp only [Obj.outs, h]

theorem outs_single {ι : Type} (I : Obj ι) (s : I.σ) (d : Drive) : I.outs s [d] = [(I.step s d).2] := by
  simp only [Obj.outs, run_cons]
  cases h : (I.step s d).2 <;> simp [Obj.run]

end Asynkit.Proto
