/-
C14 — the parts of CPython's `asyncio/locks.py` C14 rests on, as translated from the *running interpreter's*
file on every run (`Asynkit/Gen/AsyncioLocks.lean`, translator/asynciolocks2lean.py; the file's sha256 and the
Python version are constants of the generated module), are what the models assume:

* `asyncio.Lock`: `locked`, `_wake_up_first`, `release` and the two segments of `acquire` equal the machine of
  `Model/StdLock.lean` — which `Lemmas/C14StdLock.lean` proves to refine the abstract lock of `Model/Cond.lean`
  (mutual exclusion, a raising acquire leaves the lock alone, FIFO hand-over): re-exported below as
  `asyncio_lock_refines_abstract_lock`, `asyncio_lock_fifo`;
* `asyncio.Condition.notify` is `notifyFn .ic` (the InterruptCondition baseline), `notify_all` is
  `notify(len(waiters))` over whichever `notify` the class has — hence the model's `notifyAll` event for both
  classes —, `wait_for` is "evaluate the predicate; while it is false, `wait()` and evaluate again; an exception
  of `wait()` propagates unchanged" — the model's `wfStart/wfPred` bookkeeping.
-/
import Asynkit.Gen.AsyncioLocks
import Asynkit.Lemmas.C14StdLock
import Asynkit.Lemmas.GenEqC14

namespace Asynkit.GenEqC14Std
open Asynkit.Gen.AsyncioLocks

/-! ### asyncio.Lock -/
section lock
open Asynkit.StdLock

theorem locked_eq (s : LS) : Lock.locked s = (s, .ret s.locked) := rfl

theorem wakeUpFirst_eq (s : LS) : Lock.wakeUpFirst s = (StdLock.wakeUpFirst s, .ret false) := by
  unfold Lock.wakeUpFirst StdLock.wakeUpFirst
  cases hw : s.waiters with
  | nil => simp [Prim.waitersNonEmpty, Prim.firstWaiter, hw]
  | cons t tl =>
    cases hd : s.hasDeque <;> cases hf : s.fut t <;>
      simp [Prim.waitersNonEmpty, Prim.firstWaiter, Prim.futDone, Prim.futSetResult, hw, hd, hf]

theorem release_eq (s : LS) : Lock.release s = StdLock.release s := by
  unfold Lock.release StdLock.release
  simp only [wakeUpFirst_eq, Prim.isLocked, Prim.setLocked]
  all_goals (split <;> rfl)

theorem acq_entry_eq (s : LS) (j : Nat) :
    Lock.acq_entry s j = match acquireEntry s j with
      | (s', .took) => (s', .fin (.ret true))
      | (s', .suspended) => (s', .susp_fut0 ⟨⟩) := by
  unfold Lock.acq_entry acquireEntry
  cases hl : s.locked <;> cases hd : s.hasDeque <;>
    cases ha : (s.waiters.all fun t => s.fut t == .cancelled) <;>
    simp [Prim.isLocked, Prim.waitersIsNone, Prim.allCancelled, Prim.setLocked, Prim.initWaiters,
      Prim.createFuture, Prim.waitersAppend, hl, hd, ha]

theorem acq_fut0_eq (s : LS) (j : Nat) (r : Cond.Resume) :
    Lock.acq_fut0 s j ⟨⟩ r = ((acquireResume s j r).1, .fin (acquireResume s j r).2) := by
  cases r with
  | ok => simp [Lock.acq_fut0, acquireResume, Prim.waitersRemove, Prim.setLocked]
  | exc e =>
    simp only [Lock.acq_fut0, acquireResume, wakeUpFirst_eq, Prim.isLocked, Prim.waitersRemove]
    all_goals (split <;> rfl)

/-- `asyncio.Lock`, as translated from the running interpreter, refines the abstract lock of the C14 model -/
theorem asyncio_lock_refines_abstract_lock {s s' : Sys} (hr : SysReachable s) (ev : Ev)
    (h : sysStep s ev = some s') : AbsStep s.owner s'.owner ev :=
  refines_abstract_lock hr ev h

theorem asyncio_lock_fifo {s : Sys} (hr : SysReachable s) :
    (s.ls.locked = s.owner.isSome) ∧
    (∀ t ∈ s.ls.waiters, s.ls.fut t = .done → s.ls.waiters.head? = some t ∧ s.owner = none) :=
  fifo_handover hr

end lock

/-! ### asyncio.Condition -/
section cond
open Asynkit.Cond

/-- a loop body that does what one step of `icWalk` does -/
theorem forLoop_icWalk (n : Nat) (body : Nat → State × Nat → LoopCtl (State × Nat))
    (hbody : ∀ x (s : State) c, body x (s, c) =
      if c ≥ n then LoopCtl.brk (s, c)
      else if isPending s.w x then LoopCtl.cont ({ s with w := setDone s.w x }, c + 1)
      else LoopCtl.cont (s, c)) :
    ∀ (l : List Nat) (s : State) (c : Nat),
      (forLoop l (s, c) body).1 = { s with w := (icWalk n c s.w l).1 }
  | [], s, c => by simp [forLoop, icWalk]
  | x :: l, s, c => by
    unfold forLoop icWalk
    rw [hbody x s c]
    by_cases hc : c ≥ n
    · simp [hc]
    · by_cases hp : isPending s.w x = true
      · simp only [hc, hp, if_true, if_false]
        rw [forLoop_icWalk n body hbody l _ (c + 1)]
      · simp only [hc, hp, if_false]
        exact forLoop_icWalk n body hbody l s c

/-- **`asyncio.Condition.notify(n)`** (used as is by InterruptCondition) -/
theorem notify_eq (s : State) (n : Nat) :
    Condition.notify s n = if s.owner.isSome then ({ s with w := (notifyFn .ic n s.w s.queue).1 }, .ret)
                           else (s, .raised .runtime) := by
  unfold Condition.notify
  by_cases ho : s.owner.isSome = true
  · simp only [Prim.locked, ho, if_true, notifyFn, orderedQ]
    congr 1
    refine forLoop_icWalk n _ ?_ _ s 0
    intro x s c
    by_cases hc : c ≥ n <;> by_cases hp : isPending s.w x = true <;>
      simp [Prim.futDone, Prim.futSetResult, hc, hp]
  · simp [Prim.locked, ho]

theorem notify_step_ic (s s' : State) (j n : Nat) (hk : s.kind = .ic)
    (h : step s (.notify j n) = some s') :
    (Condition.notify s n).2 = .ret ∧ GenEqC14.CodeEq s' (Condition.notify s n).1 := by
  simp only [step] at h
  split at h
  · rename_i ho
    injection h with h; subst h
    rw [notify_eq]
    simp [ho, hk, GenEqC14.CodeEq]
  · cases h

/-- **`notify_all()` is `notify(len(self._waiters))`**, whatever `notify` is -/
theorem notifyAll_eq (notify : State → Nat → State × Fin) (s : State) :
    Condition.notifyAll notify s = notify s s.queue.length := by
  unfold Condition.notifyAll
  rcases hn : notify s s.queue.length with ⟨s1, f⟩
  cases f <;> rfl

/-- … hence the model's `notifyAll` event, for PriorityCondition (its own `notify`) and for InterruptCondition -/
theorem notifyAll_step (s s' : State) (j : Nat) (h : step s (.notifyAll j) = some s') :
    (s.kind = .pc → (Condition.notifyAll Gen.Cond.notify s).2 = .ret ∧
        GenEqC14.CodeEq s' (Condition.notifyAll Gen.Cond.notify s).1) ∧
    (s.kind = .ic → (Condition.notifyAll Condition.notify s).2 = .ret ∧
        GenEqC14.CodeEq s' (Condition.notifyAll Condition.notify s).1) := by
  simp only [step] at h
  split at h
  · rename_i ho
    injection h with h; subst h
    constructor
    · intro hk
      rw [notifyAll_eq, GenEqC14.notify_eq]
      simp [ho, hk, GenEqC14.CodeEq]
    · intro hk
      rw [notifyAll_eq, notify_eq]
      simp [ho, hk, GenEqC14.CodeEq]
  · cases h

/-- **`wait_for(predicate)`**: the predicate is evaluated; true → return (its value), false → `await self.wait()`.
After `wait()` returned the same again; an exception of `wait()` leaves `wait_for` unchanged.  No state is touched. -/
theorem wait_for_eq (s : State) (pred : Bool) (l : Condition.wf_L_wait0) (e : Nat) :
    Condition.wf_entry s pred = (s, if pred then .fin .ret else .susp_wait0 ⟨pred⟩)
    ∧ Condition.wf_wait0 s pred l .ok = Condition.wf_entry s pred
    ∧ Condition.wf_wait0 s pred l (.exc e) = (s, .fin (.raised (.dlv e))) := by
  refine ⟨?_, ?_, rfl⟩ <;> cases pred <;> simp [Condition.wf_entry, Condition.wf_wait0]

/-- … which is the model's `wfPred` bookkeeping: a true predicate logs the exit of `wait_for` (with the caller
owning the lock, `wait_exit_holds_lock`), a false one changes nothing and `waitStart` follows -/
theorem wait_for_step (s s' : State) (j : Nat) (b : Bool) (h : step s (.wfPred j b) = some s') :
    (b = true → (Condition.wf_entry s b).2 = .fin .ret ∧
        ∃ x, s'.exits = x :: s.exits ∧ x.wf = true ∧ x.out = .ret ∧ x.tid = j) ∧
    (b = false → (∃ l, (Condition.wf_entry s b).2 = .susp_wait0 l) ∧ s' = s) := by
  simp only [step] at h
  split at h
  · cases b
    · simp at h; subst h
      exact ⟨fun hb => Bool.noConfusion hb, fun _ => ⟨⟨⟨false⟩, (by simp [Condition.wf_entry])⟩, rfl⟩⟩
    · simp only [if_true] at h
      injection h with h; subst h
      exact ⟨fun _ => ⟨(by simp [Condition.wf_entry]), _, rfl, rfl, rfl, rfl⟩, fun hb => Bool.noConfusion hb⟩
  · cases h

end cond
end Asynkit.GenEqC14Std
