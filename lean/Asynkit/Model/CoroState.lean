/-
C20 — coroutine state helpers (`coro_is_new`, `coro_is_suspended`, `coro_is_finished` of
src/asynkit/coroutine.py) over a finite model of what CPython exposes.

`expose : Kind → St → Attrs` is the table "kind × phase ↦ attribute values" for CPython 3.12
(MODELLED, NOT VERIFIED; compared with the running interpreter on every observation of the
correspondence stream).  The helpers are functions of `Attrs` only, written line by line from
the Python (as repaired by fixes/C20-asyncgen-state.patch; the pre-fix async-generator branches
are kept as `isNewOrig` / `isSuspendedOrig`).  `deliver` is the transition function of the drive
operations, including the asend()/athrow()/aclose() awaitables of genobject.c with their
`ag_running_async` bookkeeping.
-/
namespace Asynkit.CoroState

inductive Kind where
  | coroutine        -- `async def`
  | genCoroutine     -- generator function decorated with `types.coroutine`
  | asyncGen         -- `async def` with `yield`
deriving Repr, DecidableEq, Inhabited

inductive Phase where
  | created          -- no body code has run
  | suspAwait        -- started, paused in an `await` / `yield from`
  | suspYield        -- started, paused at a `yield`
  | running          -- on the stack (executing, or executing a callee it awaits)
  | throwingInner    -- on the stack, relaying a thrown exception to the awaitable it delegates to
                     -- (`*_await` still shows the delegate)
  | closingInner     -- executing `close()` / `throw(GeneratorExit)`: closing the awaitable it delegates
                     -- to (gen_close_iter); CPython marks the frame executing but does not link it
  | closed           -- returned, raised or closed
deriving Repr, DecidableEq, Inhabited

/-- Interpreter-visible state of the object.  `agFlag` = `ag_running_async` (async generators:
    set when an asend()/athrow() awaitable starts, cleared when a value is yielded or the
    generator exits — NOT cleared when the awaitable is abandoned). -/
structure St where
  phase : Phase
  agFlag : Bool
deriving Repr, DecidableEq, Inhabited

inductive IState where
  | created | running | suspended | closed
deriving Repr, DecidableEq, Inhabited

/-- What the helpers (old and new) and `inspect` can see. -/
structure Attrs where
  frame : Bool       -- `*_frame is not None`
  running : Bool     -- `cr_running` / `gi_running` / `ag_running`
  awaiting : Bool    -- `cr_await` / `gi_yieldfrom` / `ag_await` is not None
  suspended : Bool   -- `cr_suspended` / `gi_suspended` / `ag_suspended`
  fresh : Bool       -- frame not started: `f_lasti < 0` or resting on RETURN_GENERATOR
  onStack : Bool     -- `frame.f_back is not None`
  inspect : IState   -- inspect.getcoroutinestate / getgeneratorstate / getasyncgenstate
deriving Repr, DecidableEq, Inhabited

def Phase.isSusp : Phase → Bool
  | .suspAwait | .suspYield => true
  | _ => false

/-- inspect.get*state: `running` first, then `suspended`, then `frame is None`, else created. -/
def inspectOf (running suspended frame : Bool) : IState :=
  if running then .running else if suspended then .suspended else if !frame then .closed else .created

def expose (k : Kind) (s : St) : Attrs :=
  let frame := s.phase != .closed
  let running := match k with
    | .asyncGen => s.agFlag
    | _ => s.phase == .running || s.phase == .closingInner || s.phase == .throwingInner
  let suspended := s.phase.isSusp
  { frame := frame
    running := running
    awaiting := s.phase == .suspAwait || s.phase == .closingInner || s.phase == .throwingInner
    suspended := suspended
    fresh := s.phase == .created
    onStack := s.phase == .running || s.phase == .throwingInner
    inspect := inspectOf running suspended frame }

/-! ### the helpers, as coded -/

/-- `_asyncgen_frame_state(agen)` (Python ≥ 3.12 branch: `ag_suspended` tells suspended from
    executing; `frame.f_back` is only the fallback for older interpreters, see `agenFrameStateOld`) -/
def agenFrameState (a : Attrs) : IState :=
  if !a.frame then .closed
  else if a.fresh then .created
  else if a.suspended then .suspended
  else .running

/-- the first version of the fix (commit 2f3fb0e), and the < 3.12 fallback: `f_back` decides -/
def agenFrameStateOld (a : Attrs) : IState :=
  if !a.frame then .closed
  else if a.onStack then .running
  else if a.fresh then .created
  else .suspended

def isNew (k : Kind) (a : Attrs) : Bool :=
  match k with
  | .coroutine => a.inspect == .created        -- inspect.getcoroutinestate(coro) == CORO_CREATED
  | .genCoroutine => a.inspect == .created     -- inspect.getgeneratorstate(coro) == GEN_CREATED
  | .asyncGen => agenFrameState a == .created

def isSuspended (k : Kind) (a : Attrs) : Bool :=
  match k with
  | .coroutine => a.inspect == .suspended
  | .genCoroutine => a.inspect == .suspended
  | .asyncGen => agenFrameState a == .suspended

/-- `coro_get_frame(coro) is None` -/
def isFinished (_ : Kind) (a : Attrs) : Bool := !a.frame

/-- before the fix: `ag_frame is not None and ag_await is None and not ag_running` -/
def isNewOrig (k : Kind) (a : Attrs) : Bool :=
  match k with
  | .asyncGen => a.frame && !a.awaiting && !a.running
  | k => isNew k a

/-- before the fix: `ag_await is not None` -/
def isSuspendedOrig (k : Kind) (a : Attrs) : Bool :=
  match k with
  | .asyncGen => a.awaiting
  | k => isSuspended k a

/-- The four mutually exclusive verdicts. -/
inductive Verdict where
  | new | suspended | finished | executing | ambiguous
deriving Repr, DecidableEq, Inhabited

def verdict (k : Kind) (a : Attrs) : Verdict :=
  match isNew k a, isSuspended k a, isFinished k a with
  | true, false, false => .new
  | false, true, false => .suspended
  | false, false, true => .finished
  | false, false, false => .executing
  | _, _, _ => .ambiguous

/-- what the phase *is* (ground truth) -/
def truth : Phase → Verdict
  | .created => .new
  | .suspAwait => .suspended
  | .suspYield => .suspended
  | .running => .executing
  | .closingInner => .executing
  | .throwingInner => .executing
  | .closed => .finished

/-! ### drive operations -/

inductive AwMode where
  | asend | athrow | aclose
deriving Repr, DecidableEq, Inhabited

inductive AwSt where
  | init | iter | closed
deriving Repr, DecidableEq, Inhabited

structure Aw where
  mode : AwMode
  st : AwSt
deriving Repr, DecidableEq, Inhabited

/-- Object + (async generators) the hidden `ag_closed` flag and the awaitable currently held. -/
structure DSt where
  st : St
  agClosed : Bool := false
  aw : Option Aw := none
deriving Repr, DecidableEq, Inhabited

inductive Op where
  | send | throw | close                 -- on a coroutine / generator-based coroutine
  | throwX                               -- `throw(GeneratorExit())`
  | newAw (m : AwMode)                   -- `ag.asend(None)` / `ag.athrow(E)` / `ag.aclose()`: a new awaitable
  | awSend | awThrow | awClose           -- on the awaitable currently held (the previous one is abandoned)
  | awThrowX                             -- `awaitable.throw(GeneratorExit())`
deriving Repr, DecidableEq, Inhabited

/-- what the body does when it is resumed -/
inductive Resp where
  | await | yield | exit
deriving Repr, DecidableEq, Inhabited

def respPhase (k : Kind) : Resp → Phase
  | .await => .suspAwait
  | .yield => if k = .coroutine then .suspAwait else .suspYield   -- a coroutine can only suspend in an await
  | .exit => .closed

/-- Result of one operation: was the body resumed; the state while it ran; the state in which the
    clean-up code of a callee it was delegating to sees it while the operation is delivered
    (`closingInner` for close()/throw(GeneratorExit) on an object suspended in an await, else the
    same as `mid`); the state afterwards. -/
structure Res where
  resumed : Bool
  mid : St
  after : DSt
  midCleanup : St := mid
deriving Repr, DecidableEq, Inhabited

def noRun (d : DSt) : Res := ⟨false, d.st, d, d.st⟩

/-- mark an operation as one that closes the delegate first -/
def closing (d : DSt) (x : Res) : Res :=
  if x.resumed && d.st.phase == .suspAwait then { x with midCleanup := ⟨.closingInner, x.mid.agFlag⟩ } else x

/-- resume a coroutine / generator (flag untouched) -/
def resumePlain (k : Kind) (d : DSt) (r : Resp) : Res :=
  ⟨true, ⟨.running, d.st.agFlag⟩, { d with st := ⟨respPhase k r, d.st.agFlag⟩ }, ⟨.running, d.st.agFlag⟩⟩

/-- resume an async generator from an awaitable.  `flagIn` = the flag while it runs.  On `await`
    the flag and the awaitable stay as they are; on `yield` the flag is cleared; on exit the flag
    is cleared too, except through `aclose().throw()` (`keepOnExit`).  `fin` = the awaitable is
    marked finished when the generator yields or exits (send on any awaitable, throw on an
    asend() awaitable; `athrow().throw()` leaves its awaitable re-usable). -/
def resumeAg (d : DSt) (a : Aw) (flagIn : Bool) (keepOnExit : Bool) (finY finX : Bool) (r : Resp) : Res :=
  let mid : St := ⟨.running, flagIn⟩
  let done : Aw := { a with st := .closed }
  match r with
  | .await => ⟨true, mid, { d with st := ⟨.suspAwait, flagIn⟩, aw := some a }, mid⟩
  | .yield => ⟨true, mid, { d with st := ⟨.suspYield, false⟩, aw := some (if finY then done else a) }, mid⟩
  | .exit =>
    if keepOnExit then ⟨true, mid, { d with st := ⟨.closed, flagIn⟩, aw := some a }, mid⟩
    else ⟨true, mid, { d with st := ⟨.closed, false⟩, aw := some (if finX then done else a), agClosed := true }, mid⟩

def deliverBase (k : Kind) (d : DSt) (op : Op) (r : Resp) : Res :=
  match k, op with
  | .asyncGen, .newAw m => noRun { d with aw := some ⟨m, .init⟩ }
  | .asyncGen, .awClose =>
    match d.aw with
    | none => noRun d
    | some a => noRun { d with aw := some { a with st := .closed } }
  | .asyncGen, .awSend =>
    match d.aw with
    | none => noRun d
    | some a =>
      if a.st = .closed then noRun d else
      match a.mode with
      | .asend =>
        if a.st = .init ∧ d.st.agFlag then noRun d        -- "asynchronous generator is already running"
        else
          let a1 : Aw := { a with st := .iter }
          match d.st.phase with
          | .closed => noRun { d with st := ⟨.closed, false⟩, aw := some { a with st := .closed } }
          | .running => noRun d
          | _ => resumeAg d a1 true false true true r
      | _ =>
        if d.st.phase = .closed then noRun { d with aw := some { a with st := .closed } }
        else if a.st = .init then
          if d.st.agFlag then noRun { d with aw := some { a with st := .closed } }
          else if d.agClosed then noRun { d with aw := some { a with st := .closed } }
          else
            let d1 : DSt := { d with agClosed := d.agClosed || (a.mode == .aclose) }
            let a1 : Aw := { a with st := .iter }
            match d.st.phase with
            | .created => noRun { d1 with st := ⟨.closed, false⟩, aw := some { a with st := .closed } }
            | .running => noRun d
            | _ => resumeAg d1 a1 true false true true r
        else
          match d.st.phase with
          -- awaitable already iterating: plain gen_send; `ag_running_async` is not set again, and an
          -- athrow() awaitable is not finished by a yielded value or by the generator's exit
          | .suspAwait | .suspYield =>
            resumeAg d a d.st.agFlag false (a.mode == .aclose) (a.mode == .aclose) r
          | _ => noRun d
  | .asyncGen, .awThrow =>
    match d.aw with
    | none => noRun d
    | some a =>
      if a.st = .closed then noRun d else
      let acl := a.mode == .aclose
      let fin := a.mode == .asend        -- only asend().throw() finishes its awaitable
      let done : Aw := { a with st := .closed }
      match d.st.phase with
      | .closed =>
        if acl then noRun d
        else noRun { d with st := ⟨.closed, false⟩, aw := some (if fin then done else a) }
      | .created =>
        if acl then noRun { d with st := ⟨.closed, d.st.agFlag⟩ }
        else noRun { d with st := ⟨.closed, false⟩, aw := some (if fin then done else a) }
      | .running => noRun d
      | _ => resumeAg d a d.st.agFlag acl (fin || acl) fin r
  | .asyncGen, _ => noRun d
  | _, .send =>
    match d.st.phase with
    | .created | .suspAwait | .suspYield => resumePlain k d r
    | _ => noRun d
  | _, .throw =>
    match d.st.phase with
    | .created => noRun { d with st := ⟨.closed, d.st.agFlag⟩ }
    | .suspAwait | .suspYield => resumePlain k d r
    | _ => noRun d
  | _, .close =>
    match d.st.phase with
    | .created => noRun { d with st := ⟨.closed, d.st.agFlag⟩ }
    | .suspAwait | .suspYield => resumePlain k d r
    | _ => noRun d
  | _, _ => noRun d

/-- mark an operation as one that throws into the delegate -/
def throwing (d : DSt) (x : Res) : Res :=
  if x.resumed && d.st.phase == .suspAwait then { x with midCleanup := ⟨.throwingInner, x.mid.agFlag⟩ } else x

/-- does `send` on the awaitable held deliver an exception (first send on athrow()/aclose()) -/
def sendThrows (d : DSt) : Bool :=
  match d.aw with
  | some a => a.mode != .asend && a.st == .init
  | none => false

/-- one drive operation.  `throw(GeneratorExit)` moves the phases exactly like `throw(E)`; it and
    `close()` differ from the others in how a delegate's clean-up code sees the object. -/
def deliver (k : Kind) (d : DSt) (op : Op) (r : Resp) : Res :=
  match op with
  | .close => closing d (deliverBase k d .close r)
  | .throwX => closing d (deliverBase k d .throw r)
  | .awThrowX => closing d (deliverBase k d .awThrow r)
  | .throw => throwing d (deliverBase k d .throw r)
  | .awThrow => throwing d (deliverBase k d .awThrow r)
  | .awSend => if sendThrows d then throwing d (deliverBase k d .awSend r) else deliverBase k d .awSend r
  | op => deliverBase k d op r

def initial : DSt := { st := ⟨.created, false⟩ }

/-- all states visited by a history: after every op, and the `mid` state of every op that resumed
    the body -/
def visited (k : Kind) : DSt → List (Op × Resp) → List St
  | d, [] => [d.st]
  | d, (op, r) :: rest =>
    let x := deliver k d op r
    d.st :: (if x.resumed then [x.mid, x.midCleanup] else []) ++ visited k x.after rest

end Asynkit.CoroState
