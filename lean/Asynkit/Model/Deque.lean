/-
Model of the `collections.deque` based ready-queue helpers of asynkit
(src/asynkit/tools.py `deque_pop`, src/asynkit/loop/default.py `queue_find`, `queue_remove`,
`call_pos`).  A deque is a `List`; head = left end.

Trusted (modelled, not verified): `deque.rotate`, `deque.popleft`, `deque.pop`,
`deque.append`, `deque.remove` (first occurrence, ValueError when absent), `deque.insert` (which
clamps like `list.insert`).
No Mathlib imports (this file is part of the executable driver).
-/
namespace Asynkit.Deque
variable {α : Type}

/-- `deque.rotate(n)`: rotate right by `n` steps (left when `n` is negative); nothing happens
    on deques of length ≤ 1; `n` is taken modulo the length. -/
def rotate (d : List α) (n : Int) : List α :=
  if d.length ≤ 1 then d else
  let k := (n % (d.length : Int)).toNat
  d.drop (d.length - k) ++ d.take (d.length - k)

/-- `deque.popleft()`; `none` = IndexError -/
def popleft : List α → Option (α × List α)
  | [] => none
  | a :: r => some (a, r)

/-- `deque.pop()`; `none` = IndexError -/
def pop (d : List α) : Option (α × List α) :=
  match d.getLast? with
  | none => none
  | some a => some (a, d.dropLast)

/-- `tools.deque_pop(d, pos)` line by line; `none` = IndexError("pop index out of range").
```
    ld = len(d)
    if pos < 0:
        pos += ld
        if pos < 0: raise IndexError
    if pos < ld >> 2:
        d.rotate(-pos); r = d.popleft(); d.rotate(pos); return r
    if pos < ld:
        pos -= ld - 1
        d.rotate(-pos); r = d.pop(); d.rotate(pos); return r
    raise IndexError
``` -/
def dequePop (d : List α) (pos : Int) : Option (α × List α) :=
  let ld : Int := d.length
  let pos1 : Int := if pos < 0 then pos + ld else pos
  if pos1 < 0 then none
  else if pos1 < ((d.length / 4 : Nat) : Int) then
    match popleft (rotate d (-pos1)) with
    | none => none
    | some (r, d') => some (r, rotate d' pos1)
  else if pos1 < ld then
    let pos2 : Int := pos1 - (ld - 1)
    match pop (rotate d (-pos2)) with
    | none => none
    | some (r, d') => some (r, rotate d' pos2)
  else none

/-- `deque.remove(x)`: removes the first element equal to `x` (for `Handle`s: identical to it);
    `none` = ValueError -/
def remove [BEq α] (q : List α) (x : α) : Option (List α) :=
  if q.contains x then some (q.erase x) else none

/-- `default.queue_find(queue, key, remove)`:
```
    for handle in reversed(list(queue)):      # a snapshot, searched from the tail
        if key(handle):
            if remove: queue.remove(handle)   # by identity
            return handle
    return None
``` -/
def queueFind [BEq α] (q : List α) (key : α → Bool) (rm : Bool) : Option α × List α :=
  match q.reverse.find? key with
  | none => (none, q)
  | some h =>
    if rm then
      match remove q h with
      | some q' => (some h, q')
      | none => (some h, q)
    else (some h, q)

/-- `default.queue_remove(queue, handle)`: `queue.remove(handle)`;
    `none` = ValueError("handle not in queue") -/
def queueRemove [BEq α] (q : List α) (h : α) : Option (List α) := remove q h

/-- `deque.insert(pos, x)`: like `list.insert` (clamped at both ends, negative = from the tail) -/
def insert (q : List α) (pos : Int) (x : α) : List α :=
  let i : Nat := if pos < 0 then (pos + (q.length : Int)).toNat else min pos.toNat q.length
  q.insertIdx i x

/-- `default.call_pos`: `handle = call_soon(...)` (append), `queue.remove(handle)`,
    `queue.insert(pos, handle)` -/
def callPos [BEq α] (q : List α) (pos : Int) (h : α) : List α :=
  match remove (q ++ [h]) h with
  | none => q ++ [h]
  | some q2 => insert q2 pos h

end Asynkit.Deque
