/-
Model of the `collections.deque` based ready-queue helpers of asynkit
(src/asynkit/tools.py `deque_pop`, src/asynkit/loop/default.py `queue_find`, `queue_remove`,
`call_pos`).  A deque is a `List`; head = left end.

Trusted (modelled, not verified): `deque.rotate`, `deque.popleft`, `deque.pop`,
`deque.append`, `deque.insert` (which clamps like `list.insert`).
No Mathlib imports (this file is part of the executable driver).
-/
namespace Asynkit.Deque
variable {α : Type}

/-- `deque.rotate(n)`: rotate right by `n` steps (left when `n` is negative); nothing happens
    on deques of length ≤ 1; `n` is taken modulo the length. -/
def rotate (d : List α) (n : Int) : List α :=
  if d.length ≤ 1 then d else
  let k := (n % (d.length : Int)).toNat
  d.drop (d.length - k) ++ d.take (d.length - k)

/-- `deque.popleft()`; `none` = IndexError -/
def popleft : List α → Option (α × List α)
  | [] => none
  | a :: r => some (a, r)

/-- `deque.pop()`; `none` = IndexError -/
def pop (d : List α) : Option (α × List α) :=
  match d.getLast? with
  | none => none
  | some a => some (a, d.dropLast)

/-- `tools.deque_pop(d, pos)` line by line; `none` = IndexError("pop index out of range").
```
    ld = len(d)
    if pos < 0:
        pos += ld
        if pos < 0: raise IndexError
    if pos < ld >> 2:
        d.rotate(-pos); r = d.popleft(); d.rotate(pos); return r
    if pos < ld:
        pos -= ld - 1
        d.rotate(-pos); r = d.pop(); d.rotate(pos); return r
    raise IndexError
``` -/
def dequePop (d : List α) (pos : Int) : Option (α × List α) :=
  let ld : Int := d.length
  let pos1 : Int := if pos < 0 then pos + ld else pos
  if pos1 < 0 then none
  else if pos1 < ((d.length / 4 : Nat) : Int) then
    match popleft (rotate d (-pos1)) with
    | none => none
    | some (r, d') => some (r, rotate d' pos1)
  else if pos1 < ld then
    let pos2 : Int := pos1 - (ld - 1)
    match pop (rotate d (-pos2)) with
    | none => none
    | some (r, d') => some (r, rotate d' pos2)
  else none

/-- `for i, handle in enumerate(reversed(queue)): if key(handle): ...` — first hit of the
    reversed scan, with its index `i` counted from the tail. -/
def revScan (key : α → Bool) : List α → Nat → Option (Nat × α)
  | [], _ => none
  | a :: r, i => if key a then some (i, a) else revScan key r (i + 1)

/-- `default.queue_find(queue, key, remove)` -/
def queueFind (q : List α) (key : α → Bool) (rm : Bool) : Option α × List α :=
  match revScan key q.reverse 0 with
  | none => (none, q)
  | some (i, h) =>
    if rm then
      match dequePop q ((q.length : Int) - (i : Int) - 1) with
      | some (_, q') => (some h, q')
      | none => (some h, q)
    else (some h, q)

/-- `default.queue_remove(queue, handle)`; `none` = ValueError("handle not in queue") -/
def queueRemove [BEq α] (q : List α) (h : α) : Option (List α) :=
  match revScan (fun x => x == h) q.reverse 0 with
  | none => none
  | some (i, _) =>
    match dequePop q ((q.length : Int) - (i : Int) - 1) with
    | some (_, q') => some q'
    | none => some q

/-- `deque.insert(pos, x)`: like `list.insert` (clamped at both ends, negative = from the tail) -/
def insert (q : List α) (pos : Int) (x : α) : List α :=
  let i : Nat := if pos < 0 then (pos + (q.length : Int)).toNat else min pos.toNat q.length
  q.insertIdx i x

/-- `default.call_pos`: `handle = call_soon(...)` (append), `queue.pop()`, `queue.insert(pos, handle)` -/
def callPos (q : List α) (pos : Int) (h : α) : List α :=
  match pop (q ++ [h]) with
  | none => q
  | some (h2, q2) => insert q2 pos h2

end Asynkit.Deque
