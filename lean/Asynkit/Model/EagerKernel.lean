/-
C01 / C03 — the single-coroutine slice of the asyncio kernel, `CoroStart` as used by `coro_eager`
(src/asynkit/coroutine.py) and the two drivers `plainTask` / `eagerRun`.

What is transcribed (line numbers of the *repaired* coroutine.py, see fixes/C01-*.patch, C03-*.patch):
* `Co.resume`            CPython's coroutine object around a body + `Future.__await__` setting
                         `_asyncio_future_blocking` immediately before it yields the future
* `eagerRun`             `coro_eager`: `CoroStart.__init__/_start` (run to the first yield / return /
                         raise, *any* BaseException), flag cleared on capture (fix C01), `done()` →
                         `as_future()`, else `create_task(_Continuation(cs))`
* `contResume`           `_Continuation.send/throw` + `CoroStart.__await__` (re-arm the flag, yield the
                         held object, then the relay loop); first-step throw (fix C03)
* `taskStep/taskWakeup/kstep`   `asyncio.Task.__step`, `__wakeup`, `cancel`, `Future.set_result/
                         set_exception/cancel` + callback scheduling — MODELLED, NOT VERIFIED (CPython),
                         validated against the interpreter by the plain-Task stream of the correspondence.

`Fix` selects the code variant: `Fix.repaired` is the code with both patches, `Fix.original` the
unchanged tree (kept so that the old failing inputs stay `decide`-checked witnesses).

The environment (`Ev`) resolves / fails / cancels futures at arbitrary instants, may clear any
future's blocking flag at any instant (what the Task of *another* awaiter of the same future does),
may call `cancel()` on the task at any instant, and decides when the loop runs the task's handle.
-/
import Asynkit.Model.Proto

namespace Asynkit.Eager
open Asynkit.Proto

/-- exceptions the kernel itself can deliver (never GeneratorExit: a Task does not close) -/
inductive KExc where
  | cancelled               -- exactly `CancelledError` (made by Task.cancel / Future.cancel)
  | rt (tag : Nat)          -- RuntimeError
  | other (n : Nat)         -- E1, E2, B1 (BaseException subclass) …
deriving Repr, DecidableEq, Inhabited

def KExc.toExc : KExc → Exc
  | .cancelled => .cancelled 0
  | .rt t => .runtime t
  | .other n => .other n

def rtNoHandshake : Nat := 10   -- "yield was used instead of yield from"
def rtBadYield : Nat := 11      -- "Task got bad yield"
def rtAwaitNotUsed : Nat := 12  -- "await wasn't used with future"

inductive FSt where
  | pending
  | result (v : Val)
  | exc (e : KExc)
  | cancelled
deriving Repr, DecidableEq, Inhabited

structure Fut where
  st : FSt := .pending
  blocking : Bool := false      -- `_asyncio_future_blocking`
  isTask : Bool := false        -- cancel() only *requests* cancellation (a Task)
  cancelReq : Bool := false
deriving Repr, DecidableEq, Inhabited

def Fut.isDone (x : Fut) : Bool :=
  match x.st with
  | .pending => false
  | _ => true

abbrev Futs := Nat → Fut

def Futs.set (F : Futs) (f : Nat) (x : Fut) : Futs := fun g => if g = f then x else F g

def setFlag (F : Futs) (f : Nat) (b : Bool) : Futs := F.set f { F f with blocking := b }

/-- `fut.cancel()` → (new state, return value) -/
def futCancel (F : Futs) (f : Nat) : Futs × Bool :=
  match (F f).st with
  | .pending =>
    if (F f).isTask then (F.set f { F f with cancelReq := true }, true)
    else (F.set f { F f with st := .cancelled }, true)
  | _ => (F, false)

/-- A coroutine body that can look at the futures (their state *and* flag: CPython's C
    `FutureIter` raises when asked to await a pending future whose flag is already set). -/
structure VBody where
  σ : Type
  init : σ
  resume : σ → Resume → Futs → σ × Out

def VBody.ofBody (b : Body) : VBody := ⟨b.σ, b.init, fun s r _ => b.resume s r⟩

/-- coroutine object: CPython state + (ghost) the list of resumes delivered to the body, each with
    the futures as they were at that moment; most recent first -/
structure Co (σ : Type) where
  st : CState σ
  log : List (Resume × Futs)
  final : Option σ := none      -- (ghost) the body's state when it returned / raised

namespace Co
variable (b : VBody)

def start : Co b.σ := ⟨.created b.init, [], none⟩

/-- `Future.__await__` sets the flag of the future immediately before yielding it -/
def armYield (y : Y) (F : Futs) : Futs :=
  match y with
  | .fut f => setFlag F f true
  | _ => F

/-- classify one run of the body -/
def after (c : Co b.σ) (r : Resume) (F : Futs) (x : b.σ × Out) : Co b.σ × Out × Futs :=
  let log := (r, F) :: c.log
  match x.2 with
  | .yield y => (⟨.susp x.1, log, none⟩, .yield y, armYield y F)
  | .ret v => (⟨.done, log, some x.1⟩, .ret v, F)
  | .raise (.stopIter _) => (⟨.done, log, some x.1⟩, .raise (.runtime rtRaisedStopIter), F)
  | .raise e => (⟨.done, log, some x.1⟩, .raise e, F)

/-- `coro.send(v)` / `coro.throw(e)` -/
def resume (c : Co b.σ) (r : Resume) (F : Futs) : Co b.σ × Out × Futs :=
  match c.st, r with
  | .created s, .send v =>
    if v ≠ 0 then (c, .raise .typeErr, F) else after b c r F (b.resume s r F)
  | .created _, .throw e => (⟨.done, c.log, none⟩, .raise e, F)
  | .susp s, r => after b c r F (b.resume s r F)
  | .done, _ => (c, .raise (.runtime rtCannotReuse), F)

end Co

/-- what a Task does to its coroutine -/
inductive KRes where
  | send                    -- `coro.send(None)`
  | throw (e : KExc)
deriving Repr, DecidableEq

def KRes.toResume : KRes → Resume
  | .send => .send 0
  | .throw e => .throw e.toExc

/-! ### the Task -/

inductive Handle where
  | step (exc : Option KExc)
  | wakeup (f : Nat)
deriving Repr, DecidableEq

structure Task where
  ready : Option Handle := some (.step none)   -- the task's handle in the loop's ready queue
  futWaiter : Option Nat := none
  mustCancel : Bool := false
  outcome : Option Out := none                 -- what `await task` gives once done (never a yield)
  hsErr : Bool := false                        -- ghost: took the "yield was used instead of yield from" branch
deriving Repr, DecidableEq

structure K (κ : Type) where
  co : κ
  task : Task
  futs : Futs

abbrev CStep (κ : Type) := κ → KRes → Futs → κ × Out × Futs

section kernel
variable {κ : Type} (cstep : CStep κ)

/-- what `Task.__step` does with the coroutine's answer -/
def taskFinish (t : Task) (x : κ × Out × Futs) : K κ :=
  let F := x.2.2
  match x.2.1 with
  | .ret v => ⟨x.1, { t with outcome := some (.ret v) }, F⟩
  | .raise e => ⟨x.1, { t with outcome := some (.raise e) }, F⟩
  | .yield (.fut f) =>
    if (F f).blocking then
      ⟨x.1, { t with futWaiter := some f,
                     ready := if (F f).isDone then some (.wakeup f) else none }, setFlag F f false⟩
    else
      ⟨x.1, { t with ready := some (.step (some (.rt rtNoHandshake))), hsErr := true }, F⟩
  | .yield .bare => ⟨x.1, { t with ready := some (.step none) }, F⟩
  | .yield (.tok _) => ⟨x.1, { t with ready := some (.step (some (.rt rtBadYield))) }, F⟩

/-- the exception `__step` really throws: a pending cancel request replaces anything but a CancelledError -/
def stepExc (mustCancel : Bool) (exc : Option KExc) : Option KExc :=
  if mustCancel then some .cancelled else exc

def stepRes (mustCancel : Bool) (exc : Option KExc) : KRes :=
  match stepExc mustCancel exc with
  | none => .send
  | some e => .throw e

/-- `Task.__step(exc)` -/
def taskStep (s : K κ) (exc : Option KExc) : K κ :=
  taskFinish { s.task with mustCancel := false, futWaiter := none, ready := none }
    (cstep s.co (stepRes s.task.mustCancel exc) s.futs)

/-- `Task.__wakeup(future)` -/
def taskWakeup (s : K κ) (f : Nat) : K κ :=
  match (s.futs f).st with
  | .pending => s
  | .result _ => taskStep cstep s none
  | .exc e => taskStep cstep s (some e)
  | .cancelled => taskStep cstep s (some .cancelled)

end kernel

/-- future `f` has just become done: its callbacks are scheduled -/
def notify (t : Task) (f : Nat) : Task :=
  if t.futWaiter = some f ∧ t.outcome = none then { t with ready := some (.wakeup f) } else t

def finishFut (t : Task) (F : Futs) (f : Nat) (st : FSt) : Task × Futs :=
  match (F f).st with
  | .pending => (notify t f, F.set f { F f with st := st })
  | _ => (t, F)

inductive Ev where
  | run                              -- the loop runs this task's ready handle, if it has one
  | resolve (f : Nat) (v : Val)      -- `f.set_result(v)` if pending
  | fail (f : Nat) (e : KExc)        -- `f.set_exception(e)` if pending
  | cancelFut (f : Nat)              -- `f` becomes cancelled (for a Task: it finishes cancelled)
  | clearFlag (f : Nat)              -- another awaiter's Task received `f`: flag := False
  | cancel                           -- `task.cancel()`
deriving Repr, DecidableEq

/-- `Task.cancel()` -/
def taskCancel (t : Task) (F : Futs) : Task × Futs :=
  match t.outcome with
  | some _ => (t, F)
  | none =>
    match t.futWaiter with
    | none => ({ t with mustCancel := true }, F)
    | some f =>
      match (F f).st with
      | .pending =>
        if (F f).isTask then (t, F.set f { F f with cancelReq := true })
        else (notify t f, F.set f { F f with st := .cancelled })
      | _ => ({ t with mustCancel := true }, F)

/-- environment events other than `run`: the coroutine object is not involved -/
def envStep (t : Task) (F : Futs) : Ev → Task × Futs
  | .run => (t, F)
  | .resolve f v => finishFut t F f (.result v)
  | .fail f e => finishFut t F f (.exc e)
  | .cancelFut f => finishFut t F f .cancelled
  | .clearFlag f => (t, setFlag F f false)
  | .cancel => taskCancel t F

def kstep {κ : Type} (cstep : CStep κ) (s : K κ) (e : Ev) : K κ :=
  match e with
  | .run =>
    match s.task.outcome, s.task.ready with
    | none, some (.step e) => taskStep cstep s e
    | none, some (.wakeup f) => taskWakeup cstep s f
    | _, _ => s
  | e => ⟨s.co, (envStep s.task s.futs e).1, (envStep s.task s.futs e).2⟩

def runK {κ : Type} (cstep : CStep κ) (s : K κ) (es : List Ev) : K κ := es.foldl (kstep cstep) s

/-! ### plain Task -/

def coStep (b : VBody) : CStep (Co b.σ) := fun c r F => Co.resume b c r.toResume F

/-- `loop.create_task(coro)` -/
def plainTask (b : VBody) (F : Futs) : K (Co b.σ) := ⟨Co.start b, {}, F⟩

/-- … whose first step has run -/
def plainStarted (b : VBody) (F : Futs) : K (Co b.σ) := kstep (coStep b) (plainTask b F) .run

/-! ### CoroStart, its continuation, coro_eager -/

structure Fix where
  clearOnCapture : Bool     -- C01: `_start` clears the flag of the future it keeps
  rearm : Bool              -- C01: `__await__` sets the flag before it yields the kept future
  firstThrow : Bool         -- C03: continuation delivers a first-step throw to the started coroutine
deriving Repr, DecidableEq

def Fix.repaired : Fix := ⟨true, true, true⟩
def Fix.original : Fix := ⟨false, false, false⟩

/-- state of the object handed to `create_task` -/
inductive Cont (σ : Type) where
  | unstarted (co : Co σ) (held : Y)   -- not resumed yet; `cs.start_result = (held, None)`
  | relay (co : Co σ)                  -- inside the relay loop of `CoroStart.__await__`
  | dead (co : Co σ)                   -- (original code) wrapper coroutine finished without running

def Cont.co {σ : Type} : Cont σ → Co σ
  | .unstarted co _ => co
  | .relay co => co
  | .dead co => co

def rearmHeld (fix : Fix) (held : Y) (F : Futs) : Futs :=
  match held with
  | .fut f => if fix.rearm then setFlag F f true else F
  | _ => F

def relayStep (b : VBody) (co : Co b.σ) (r : KRes) (F : Futs) : Cont b.σ × Out × Futs :=
  let x := Co.resume b co r.toResume F
  (.relay x.1, x.2.1, x.2.2)

def contResume (fix : Fix) (b : VBody) : CStep (Cont b.σ)
  | .relay co, r, F => relayStep b co r F
  | .dead co, _, F => (.dead co, .raise (.runtime rtCannotReuse), F)
  | .unstarted co held, .send, F =>
    -- gen = cs.__await__(); gen.send(None): flag re-armed, held object yielded
    (.relay co, .yield held, rearmHeld fix held F)
  | .unstarted co held, .throw e, F =>
    if fix.firstThrow then
      -- gen.send(None) steps `__await__` to its yield (flag re-armed); if the held future is not
      -- passed on after all, the flag is taken back
      match e, held with
      | .cancelled, .fut f =>
        let c := futCancel F f
        if c.2 then (.relay co, .yield held, rearmHeld fix held c.1) else relayStep b co (.throw e) F
      | _, _ => relayStep b co (.throw e) F
    else
      (.dead co, .raise e.toExc, F)

inductive EagerResult (σ : Type) where
  | future (co : Co σ) (out : Out) (F : Futs)    -- finished in the prefix: a completed Future, no Task
  | task (k : K (Cont σ))

/-- `coro_eager(coro)` called with the futures in state `F` -/
def eagerRun (fix : Fix) (b : VBody) (F : Futs) : EagerResult b.σ :=
  let x := Co.resume b (Co.start b) (.send 0) F
  match x.2.1 with
  | .yield y =>
    let F2 := match y with
      | .fut f => if fix.clearOnCapture then setFlag x.2.2 f false else x.2.2
      | _ => x.2.2
    .task ⟨.unstarted x.1 y, {}, F2⟩
  | out => .future x.1 out x.2.2

end Asynkit.Eager
