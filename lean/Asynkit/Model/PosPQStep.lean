/-
`PosPriorityQueue` as a state machine: one `Op` = one public method call.
`append(obj)` is `appendPri obj (get_priority obj)`; `reschedule_all` carries the `get_priority`
function in force at that moment (object priorities may change between calls).
-/
import Asynkit.Model.PosPQ

namespace Asynkit
namespace PosPQ

inductive Op where
  | appendPri (x : Nat) (p : Rat)
  | insert (position : Nat) (x : Nat)
  | popleft
  | remove (x : Nat)
  | find (key : Nat → Bool) (rm : Bool)
  | reschedule (key : Nat → Bool) (np : Rat)
  | rescheduleAll (gp : Nat → Rat)
  | iter
  | clear

inductive Out where
  | unit
  | obj (x : Nat)
  | none
  | objs (xs : List Nat)
  | indexError
  | valueError

variable (H : HeapLib (Entry PV)) (draw : Nat → Rat)

def step (s : PosPQ) : Op → PosPQ × Out
  | .appendPri x p => (s.appendPri H x p draw, .unit)
  | .insert p x => (s.insert H p x draw, .unit)
  | .popleft => match s.popleft H draw with
    | some (x, s') => (s', .obj x)
    | Option.none => (s, .indexError)
  | .remove x => match s.remove H x draw with
    | some s' => (s', .unit)
    | Option.none => (s, .valueError)
  | .find key rm => match s.find H key rm with
    | (some x, s') => (s', .obj x)
    | (Option.none, s') => (s', .none)
  | .reschedule key np => match s.reschedule H key np with
    | (some x, s') => (s', .obj x)
    | (Option.none, s') => (s', .none)
  | .rescheduleAll gp => (s.rescheduleAll H gp, .unit)
  | .iter => let r := s.iter; (r.2, .objs r.1)
  | .clear => (s.clear, .unit)

def runFrom (s : PosPQ) : List Op → PosPQ × List Out
  | [] => (s, [])
  | op :: ops =>
    let r := step H draw s op
    let r2 := runFrom r.1 ops
    (r2.1, r.2 :: r2.2)

end PosPQ
end Asynkit
