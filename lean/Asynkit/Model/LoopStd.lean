/-
Kernel interface for the translation of CPython's `asyncio/base_events.py` / `events.py`
(`translator/baseevents2lean.py` → `Gen/BaseEvents.lean`): the part of a `BaseEventLoop` object
that `call_soon`, `call_soon_threadsafe`, `call_at`, `call_later`, `_timer_handle_cancelled`,
`_run_once`, `Handle.cancel`, `TimerHandle.cancel` and `Handle._run` read and write, and the
primitives they are translated onto.

* the ready queue `self._ready` is a `Q` with operations `Sched.QOps Q` (a deque for the stock
  and SchedulingMixin loops, the `PosPriorityQueue` for the priority loop): the translated code
  only uses `append`, `popleft`, `len`;
* `self._scheduled` is a list kept as a heap through an abstract `HeapLib` (`heapq`: tied to the
  interpreter's `heapq.py` by `Gen/Heapq.lean`), ordered by `TimerHandle.__lt__` = `_when <`;
* Handle / TimerHandle objects are natural numbers; their fields are `St.info`.

Abstracted (parameters of `Env`, no code translated): the selector (`select` + `_process_events`:
may append I/O handles and let time pass), the clock (`time`), what a callback does
(`invoke`: anything, including calls back into the loop), `call_exception_handler`, the debug-mode
checks `_check_thread` / `_check_callback`, `logger.warning`, `_write_to_self`.
No Mathlib imports.
-/
import Asynkit.Model.Sched

namespace Asynkit.LoopStd

inductive Exn where
  | runtimeError      -- _check_closed / _check_thread
  | typeError         -- `when` / `delay` is None, _check_callback
  | indexError        -- popleft / heappop / [0] on an empty container
  | exit              -- SystemExit / KeyboardInterrupt leaving a callback
  | outOfFuel         -- a translated `while` loop ran out of its fuel (never happens: GenEqLoopStd)
deriving DecidableEq, Repr

/-- the fields of a `Handle` / `TimerHandle` object the loop reads -/
structure HInfo where
  cancelled : Bool := false     -- _cancelled
  scheduled : Bool := false     -- TimerHandle._scheduled
  whenT : Rat := 0              -- TimerHandle._when
  tb : Bool := false            -- `_source_traceback` is non-empty (debug mode)
deriving DecidableEq, Repr, Inhabited

inductive Ev where
  | select (timeout : Option Rat)
  | writeToSelf
  | slowWarning (h : Nat)
deriving DecidableEq, Repr

structure St (Q : Type) (ω : Type) where
  ready : Q                           -- self._ready
  sched : List Nat := []              -- self._scheduled
  cancelledCount : Int := 0           -- self._timer_cancelled_count
  info : Nat → HInfo := fun _ => {}   -- the handle objects
  next : Nat := 0                     -- identity of the next handle object
  closed : Bool := false
  stopping : Bool := false            -- self._stopping
  debug : Bool := false               -- self._debug
  cur : Option Nat := none            -- self._current_handle
  user : ω                            -- everything else callbacks act on
  trace : List Ev := []

/-- result of running a callback inside `Handle._run` -/
inductive Outcome (σ : Type) where
  | ok (s : σ)        -- returned
  | exc (s : σ)       -- raised an exception that is a BaseException but not SystemExit/KeyboardInterrupt
  | exit (s : σ)      -- raised SystemExit / KeyboardInterrupt

structure Env (Q : Type) (ω : Type) where
  O : Sched.QOps Q
  /-- `get_priority(handle)` at the moment of an append (ignored by deques) -/
  pri : St Q ω → Nat → Rat
  H : HeapLib Nat
  /-- `self.time()` -/
  time : St Q ω → Rat
  clockRes : Rat
  slowDur : Rat
  /-- `self._selector.select(timeout)`: may let time pass -/
  select : Option Rat → St Q ω → St Q ω
  /-- `self._process_events(event_list)`: may append I/O handles to the ready queue -/
  processEvents : St Q ω → St Q ω
  /-- `self._context.run(self._callback, *self._args)` -/
  invoke : Nat → St Q ω → Outcome (St Q ω)
  /-- `self._loop.call_exception_handler(context)` -/
  excHandler : Nat → St Q ω → St Q ω
  threadOk : St Q ω → Bool
  callbackOk : St Q ω → Bool

namespace Prim
variable {Q ω : Type}

/-- `events.Handle(callback, args, loop, context)`: a new object, not cancelled; it carries a
    traceback exactly in debug mode -/
def newHandle (st : St Q ω) : Nat × St Q ω :=
  (st.next, { st with next := st.next + 1,
                      info := fun i => if i = st.next then { tb := st.debug } else st.info i })

/-- `events.TimerHandle(when, callback, args, loop, context)`: `_when = when`, `_scheduled = False` -/
def newTimer (whenT : Rat) (st : St Q ω) : Nat × St Q ω :=
  (st.next, { st with next := st.next + 1,
                      info := fun i => if i = st.next then { whenT := whenT, tb := st.debug } else st.info i })

def setInfo (h : Nat) (f : HInfo → HInfo) (st : St Q ω) : St Q ω :=
  { st with info := fun i => if i = h then f (st.info i) else st.info i }

def setCancelled (h : Nat) (b : Bool) (st : St Q ω) : St Q ω := setInfo h (fun x => { x with cancelled := b }) st
def setScheduled (h : Nat) (b : Bool) (st : St Q ω) : St Q ω := setInfo h (fun x => { x with scheduled := b }) st

/-- `del handle._source_traceback[-1]`: invisible to the loop -/
def trimTb (_ : Nat) (st : St Q ω) : St Q ω := st

/-- `TimerHandle.__lt__`: `self._when < other._when` -/
def timerLt (info : Nat → HInfo) (a b : Nat) : Bool := decide ((info a).whenT < (info b).whenT)

/-- `self._check_closed()` -/
def checkClosed (st : St Q ω) : Except Exn Unit := if st.closed then .error .runtimeError else .ok ()
def checkThread (env : Env Q ω) (st : St Q ω) : Except Exn Unit :=
  if env.threadOk st then .ok () else .error .runtimeError
def checkCallback (env : Env Q ω) (st : St Q ω) : Except Exn Unit :=
  if env.callbackOk st then .ok () else .error .typeError

def writeToSelf (st : St Q ω) : St Q ω := { st with trace := st.trace ++ [.writeToSelf] }
def slowWarning (h : Nat) (st : St Q ω) : St Q ω := { st with trace := st.trace ++ [.slowWarning h] }

/-- `event_list = self._selector.select(timeout)` -/
def select (env : Env Q ω) (timeout : Option Rat) (st : St Q ω) : St Q ω :=
  env.select timeout { st with trace := st.trace ++ [.select timeout] }

end Prim
end Asynkit.LoopStd
