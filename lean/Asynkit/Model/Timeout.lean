/-
Model of `task_timeout` (src/asynkit/experimental/interrupt.py:295-351): the logic that reacts to
timer events, for one target task and any nesting of `async with task_timeout(d)` blocks.

Per level (one entry of the block): `is_active`, the identity of `my_interrupt` (= the level id),
the timer handle (`call_later`), and the interruptor task with its three-try loop
```
for i in range(3):
    if is_active:
        try: await task_interrupt(task, my_interrupt)
        except RuntimeError:
            if i == 2: raise          # -> loop exception handler
            await asyncio.sleep(0)
```
`task_interrupt` (= `task_throw` + `task_switch`) is abstract: it is either accepted — the target
will raise the interrupt at its current suspension point when it next runs — or refused with
RuntimeError (property C15 says when); the trace/environment decides which.  Exception unwinding
through the levels is `except TimeoutInterrupt as err: if err is not my_interrupt: raise;
raise TimeoutError from err` followed by `finally: is_active = False; timeout_handle.cancel()`.
Where the exception stops (how many levels it unwinds) is the body's business and is left free.

Real time and the selector are NOT modelled: `fire` is simply the event "the loop ran the timer
callback"; asyncio guarantees only that a cancelled handle never runs.

Core Lean only (part of the executable driver `Drivers/Timeout.lean`).
-/
namespace Asynkit.Timeout

inductive Timer | none | armed | fired | cancelled
deriving DecidableEq, Repr

/-- interruptor task: not created / about to run loop iteration `i` / finished -/
inductive IState | notCreated | at (i : Nat) | done
deriving DecidableEq, Repr

structure Level where
  id     : Nat            -- identity of `my_interrupt`
  timed  : Bool           -- `timeout is not None`
  active : Bool           -- `is_active`
  timer  : Timer
  ist    : IState
  failed : Bool := false  -- third refusal: exception handler called
deriving DecidableEq, Repr

/-- what travels up through the levels -/
inductive Exc | intr (o : Nat) | timeoutErr | other
deriving DecidableEq, Repr

/-- ghost record of a `task_throw` performed by an interruptor -/
structure Throw where
  id       : Nat
  inBlock  : Bool     -- the level was still entered (not exited) when the throw was performed
  active   : Bool     -- its `is_active` at that moment
  timed    : Bool     -- the level had a deadline (`timeout is not None`)
deriving DecidableEq, Repr

structure State where
  stack   : List Level := []          -- entered levels, innermost first
  exited  : List Level := []          -- levels whose block has exited
  pending : Option (Nat × Bool) := none   -- interrupt thrown at the target, not yet raised;
                                          -- the flag says "thrown by an interruptor"
  throws  : List Throw := []          -- ghost log, newest first
  convs   : List (Nat × Nat) := []    -- ghost log: (level that raised TimeoutError, interrupt id)
deriving Repr

def init : State := {}

inductive Attempt | thrown | refused | none
deriving DecidableEq, Repr

inductive Event
  | enter (id : Nat) (timed : Bool)   -- `async with task_timeout(d)` entered
  | fire (id : Nat)                   -- timer callback `trigger_timeout` runs: interruptor created
  | istep (id : Nat) (r : Attempt)    -- the interruptor task runs once
  | envThrow (o : Nat)                -- somebody else throws a TimeoutInterrupt instance at the target
  | raise (depth : Nat)               -- the target runs and raises the pending interrupt; it unwinds
                                      --   `depth` levels before being caught (or leaving the task)
  | exitOk (id : Nat)                 -- innermost block exits normally
  | exitOther (id : Nat)              -- innermost block exits with some other exception
deriving Repr

/-- the `except TimeoutInterrupt` clause of one level -/
def levelExit (l : Level) (e : Exc) : Exc :=
  match e with
  | .intr o => if l.timed && l.id == o then .timeoutErr else .intr o
  | e => e

/-- `finally: is_active = False; timeout_handle.cancel()` -/
def finallyOf (l : Level) : Level :=
  { l with active := false, timer := if l.timed then .cancelled else l.timer }

/-- unwind the `n` innermost levels with exception `e`:
    remaining stack, exited levels (innermost first), exception left after each level, conversions -/
def unwind : Nat → List Level → Exc → List Level × List Level × List Exc × List (Nat × Nat)
  | 0, stk, _ => (stk, [], [], [])
  | _, [], _ => ([], [], [], [])
  | n + 1, l :: stk, e =>
    let e' := levelExit l e
    let r := unwind n stk e'
    let c := match e, e' with
      | .intr o, .timeoutErr => [(l.id, o)]
      | _, _ => []
    (r.1, finallyOf l :: r.2.1, e' :: r.2.2.1, c ++ r.2.2.2)

def updLevel (ls : List Level) (id : Nat) (f : Level → Level) : List Level :=
  ls.map fun l => if l.id == id then f l else l

def findLevel (s : State) (id : Nat) : Option (Level × Bool) :=
  match s.stack.find? (·.id == id) with
  | some l => some (l, true)
  | none => (s.exited.find? (·.id == id)).map (·, false)

def setLevel (s : State) (id : Nat) (f : Level → Level) : State :=
  { s with stack := updLevel s.stack id f, exited := updLevel s.exited id f }

def step (s : State) : Event → Option State
  | .enter id timed =>
    if s.pending = none ∧ (findLevel s id).isNone then
      some { s with stack :=
        { id := id, timed := timed, active := timed,
          timer := if timed then .armed else .none, ist := .notCreated } :: s.stack }
    else none
  | .fire id =>
    match findLevel s id with
    | some (l, _) =>
      if l.timer = .armed then
        some (setLevel s id fun l => { l with timer := .fired, ist := .at 0 })
      else none
    | none => none
  | .istep id r =>
    match findLevel s id with
    | some (l, inBlock) =>
      match l.ist with
      | .at i =>
        if i < 3 ∧ l.active = true then
          match r with
          | .thrown =>
            some { (setLevel s id fun l => { l with ist := .at (i + 1) }) with
                   pending := some (id, true),
                   throws := { id := id, inBlock := inBlock, active := l.active, timed := l.timed } :: s.throws }
          | .refused =>
            some (setLevel s id fun l =>
              if i = 2 then { l with ist := .done, failed := true } else { l with ist := .at (i + 1) })
          | .none => none
        else
          if r = .none then some (setLevel s id fun l => { l with ist := .done }) else none
      | _ => none
    | none => none
  | .envThrow o =>
    some { s with pending := some (o, false) }
  | .raise depth =>
    match s.pending with
    | some (o, _) =>
      if depth ≤ s.stack.length then
        let r := unwind depth s.stack (.intr o)
        some { s with stack := r.1, exited := r.2.1 ++ s.exited, pending := none,
                      convs := r.2.2.2 ++ s.convs }
      else none
    | none => none
  | .exitOk id =>
    match s.stack with
    | l :: stk =>
      if l.id = id ∧ s.pending = none then
        some { s with stack := stk, exited := finallyOf l :: s.exited } else none
    | [] => none
  | .exitOther id =>
    match s.stack with
    | l :: stk =>
      if l.id = id ∧ s.pending = none then
        some { s with stack := stk, exited := finallyOf l :: s.exited } else none
    | [] => none

def run (s : State) : List Event → Option State
  | [] => some s
  | e :: es => match step s e with
    | none => none
    | some s' => run s' es

def Reachable (s : State) : Prop := ∃ es, run init es = some s

/-! ### several tasks

Every task has its own levels (`task = asyncio.current_task()`, all other state of `task_timeout` is
local to the call): a system of tasks is one `State` per task, an event of task `t` is a `step` of
component `t`.  Nothing of `task_timeout` is shared between tasks — in particular not through
context variables, which a child task would inherit from its creator. -/

abbrev MState := Nat → State

def minit : MState := fun _ => init

def mstep (ms : MState) (t : Nat) (e : Event) : Option MState :=
  (step (ms t) e).map fun s' => fun u => if u = t then s' else ms u

end Asynkit.Timeout
