/-
Object views: what Python code can read from a coroutine / generator / async-generator object,
its frame and its code object, as far as the state helpers of src/asynkit/coroutine.py (and the
`inspect` functions they call) are concerned.  This is the vocabulary of the GENERATED module
`Asynkit/Gen/CoroState.lean` (translator/corostate2lean.py): every attribute read, `hasattr`,
`getattr(x, name, default)`, `isinstance` test and `raise` of the Python source becomes one of the
primitives below.

MODELLED, NOT VERIFIED (CPython behaviour): an object of one of the three types has exactly the
attributes with its own prefix (`cr_` / `gi_` / `ag_`; reading another one raises AttributeError);
`*_suspended` may be absent (Python < 3.12 for async generators, < 3.11 for the others);
reading an attribute of `None` raises AttributeError; `opcode.opmap` of CPython 3.12.
`co_code[i]` is modelled as a total function (no IndexError: the helpers only index with the
frame's own `f_lasti`).
-/
namespace Asynkit.PyView

inductive PyErr where
  | typeError | attributeError | valueError | runtimeError
deriving Repr, DecidableEq, Inhabited

inductive PyType where
  | coroutine      -- types.CoroutineType        (inspect.iscoroutine)
  | generator      -- types.GeneratorType        (inspect.isgenerator)
  | asyncGen       -- types.AsyncGeneratorType   (inspect.isasyncgen)
  | other
deriving Repr, DecidableEq, Inhabited

/-- attribute prefixes -/
inductive Pfx where
  | cr | gi | ag
deriving Repr, DecidableEq, Inhabited

/-- a frame object -/
structure FrameView where
  lasti : Int              -- `f_lasti`
  back : Option Unit       -- `f_back` (only whether it is None)
deriving Repr, DecidableEq, Inhabited

/-- a code object -/
structure CodeView where
  co_code : Int → Nat      -- `co_code[i]`

structure ObjView where
  type : PyType
  frame : Option FrameView   -- `cr_frame` / `gi_frame` / `ag_frame`
  code : CodeView            -- `cr_code` / `gi_code` / `ag_code`
  running : Bool             -- `cr_running` / `gi_running` / `ag_running`
  suspended : Option Bool    -- `cr_suspended` / `gi_suspended` / `ag_suspended`; none = attribute absent
  await : Option Unit        -- `cr_await` / `gi_yieldfrom` / `ag_await` (only whether it is None)

def PyType.pfx : PyType → Option Pfx
  | .coroutine => some .cr
  | .generator => some .gi
  | .asyncGen => some .ag
  | .other => none

/-- does the object have the attributes with prefix `p` -/
def ObjView.owns (o : ObjView) (p : Pfx) : Bool := o.type.pfx == some p

def ObjView.getFrame (o : ObjView) (p : Pfx) : Except PyErr (Option FrameView) :=
  if o.owns p then pure o.frame else throw .attributeError

def ObjView.getCode (o : ObjView) (p : Pfx) : Except PyErr CodeView :=
  if o.owns p then pure o.code else throw .attributeError

def ObjView.getRunning (o : ObjView) (p : Pfx) : Except PyErr Bool :=
  if o.owns p then pure o.running else throw .attributeError

def ObjView.getSuspended (o : ObjView) (p : Pfx) : Except PyErr Bool :=
  if o.owns p then (match o.suspended with | some b => pure b | none => throw .attributeError)
  else throw .attributeError

def ObjView.getAwait (o : ObjView) (p : Pfx) : Except PyErr (Option Unit) :=
  if o.owns p then pure o.await else throw .attributeError

/-- `getattr(o, "<p>suspended", None)` -/
def ObjView.getSuspendedOr (o : ObjView) (p : Pfx) : Option Bool :=
  if o.owns p then o.suspended else none

/-- `getattr(o, "<p>running", None)` etc. for the attributes that are always present -/
def ObjView.getRunningOr (o : ObjView) (p : Pfx) : Option Bool :=
  if o.owns p then some o.running else none

/-- `hasattr(o, "<p><suffix>")`; `present` = is that attribute there on an object of the right type -/
def ObjView.hasAttr (o : ObjView) (p : Pfx) (present : ObjView → Bool) : Bool := o.owns p && present o

def always (_ : ObjView) : Bool := true
def hasSuspended (o : ObjView) : Bool := o.suspended.isSome

/-- attribute read on a possibly-None value -/
def deref {α : Type} : Option α → Except PyErr α
  | some a => pure a
  | none => throw .attributeError

/-- `opcode.opmap.get(name)` — CPython 3.12 (only the entries the helpers ask for) -/
def opmapGet (name : String) : Option Nat :=
  if name == "RETURN_GENERATOR" then some 75 else none

end Asynkit.PyView
