/-
C06 models.

* `UB`        : a user generator body — any deterministic resumable computation whose interactions
                are `yield v` (a generated value), `await y` (a real suspension), return, raise.
* `nativeAG`  : reference model of CPython 3.12 async-generator objects (Objects/genobject.c:
                `async_gen_asend_send/throw`, `async_gen_athrow_send/throw`,
                `async_gen_unwrap_value`, `ag_running_async`, `ag_closed`, PEP 479/525 rules).
                MODELLED, NOT VERIFIED: validated against the interpreter by its own stream.
* `goi`       : `GeneratorObjectIterator.asend/_athrow/aclose` (src/asynkit/monitor.py:303-424)
                over `Monitor.aawait/athrow` (Model/Monitor.lean) over the coroutine whose body is
                `asGoi ub` (`yield v` written as `await g.ayield(v)` = `await monitor.oob(v)`,
                lines 296-300).
* `awaitSync` : `asynkit.await_sync` / `aiter_sync` as far as C06 needs them.
-/
import Asynkit.Model.Monitor

namespace Asynkit.AsyncGen
open Asynkit.Proto (Val Exc Resume)
open Asynkit.Monitor

/-- RuntimeError phrases -/
def rtAgIgnoredGE : Nat := 20     -- "async generator ignored GeneratorExit"
def rtAgRaisedSAI : Nat := 21     -- "async generator raised StopAsyncIteration"
def rtSyncError : Nat := 22       -- asynkit.SynchronousError (a RuntimeError)
-- "… already running" = Proto.rtAlreadyRunning; PEP 479 = Proto.rtRaisedStopIter
--   ("coroutine raised StopIteration" / "async generator raised StopIteration": same kind)

inductive UStep (σ : Type) where
  | yieldVal (v : Val) (s : σ)
  | await (y : Val) (s : σ)
  | ret (s : σ)
  | raise (e : Exc) (s : σ)

structure UB where
  σ : Type
  init : σ
  resume : σ → Resume → UStep σ

/-- consumer calls; `__anext__()` is `asend(None)` -/
inductive COp where
  | asend (v : Val)
  | athrow (e : Exc)
  | aclose
deriving Repr, DecidableEq, Inhabited

/-! ### CPython's async generator object -/

structure AG (σ : Type) where
  frame : CSt σ
  running : Bool      -- ag_running_async
  closed : Bool       -- ag_closed

/-- result of `gen_send` / `_gen_throw` on the generator frame -/
inductive GOut where
  | wrapped (v : Val)     -- `yield v` (an _PyAsyncGenWrappedValue)
  | awaiting (y : Val)    -- a yield coming from an `await`
  | err (e : Exc)

def agAfter {σ : Type} : UStep σ → CSt σ × GOut
  | .yieldVal v s => (.susp s, .wrapped v)
  | .await y s => (.susp s, .awaiting y)
  | .ret s => (.done s, .err .stopAsync)                                -- return → StopAsyncIteration
  | .raise (.stopIter _) s => (.done s, .err (.runtime Proto.rtRaisedStopIter))   -- PEP 479
  | .raise .stopAsync s => (.done s, .err (.runtime rtAgRaisedSAI))             -- PEP 479/525
  | .raise e s => (.done s, .err e)

def agSend (ub : UB) (fr : CSt ub.σ) (v : Val) : CSt ub.σ × GOut :=
  match fr with
  | .created s => if v ≠ 0 then (.created s, .err .typeErr) else agAfter (ub.resume s (.send v))
  | .susp s => agAfter (ub.resume s (.send v))
  | .done s => (.done s, .err .stopAsync)          -- exhausted async generator

def agThrow (ub : UB) (fr : CSt ub.σ) (e : Exc) : CSt ub.σ × GOut :=
  match fr with
  | .created s => (.done s, .err e)
  | .susp s => agAfter (ub.resume s (.throw e))
  | .done s => (.done s, .err e)

def agResume (ub : UB) (fr : CSt ub.σ) (r : Resume) : CSt ub.σ × GOut :=
  match r with
  | .send v => agSend ub fr v
  | .throw e => agThrow ub fr e

def isSAIorGE : Exc → Bool
  | .stopAsync => true
  | .genExit => true
  | _ => false

/-- `async_gen_unwrap_value` (asend / athrow mode) -/
def unwrap {σ : Type} (closed : Bool) : CSt σ × GOut → AG σ × CallOut
  | (fr, .wrapped v) => (⟨fr, false, closed⟩, .returned v)
  | (fr, .awaiting y) => (⟨fr, true, closed⟩, .pending (.plain y))
  | (fr, .err e) => (⟨fr, false, closed || isSAIorGE e⟩, .raised e)

/-- aclose mode of `async_gen_athrow_send/throw` (`yield_close` / `check_error`) -/
def unwrapClose {σ : Type} (closed : Bool) : CSt σ × GOut → AG σ × CallOut
  | (fr, .wrapped _) => (⟨fr, false, closed⟩, .raised (.runtime rtAgIgnoredGE))
  | (fr, .awaiting y) => (⟨fr, true, closed⟩, .pending (.plain y))
  | (fr, .err e) => (⟨fr, false, closed⟩, if isSAIorGE e then .returned 0 else .raised e)

/-- first `send(None)` to the awaitable returned by `ag.asend(v)` / `ag.athrow(e)` / `ag.aclose()` -/
def nativeStart (ub : UB) (op : COp) (a : AG ub.σ) : AG ub.σ × CallOut :=
  match op with
  | .asend v =>
    if a.running then (a, .raised (.runtime Proto.rtAlreadyRunning))
    else unwrap a.closed (agSend ub a.frame v)
  | .athrow e =>
    if SCoro.isDone a.frame then (a, .returned 0)
    else if a.running then (a, .raised (.runtime Proto.rtAlreadyRunning))
    else if a.closed then (a, .raised .stopAsync)
    else unwrap a.closed (agThrow ub a.frame e)
  | .aclose =>
    if SCoro.isDone a.frame then (a, .returned 0)
    else if a.running then (a, .raised (.runtime Proto.rtAlreadyRunning))
    else if a.closed then (a, .raised .stopAsync)
    else unwrapClose true (agThrow ub a.frame .genExit)

/-- `send`/`throw` to the awaitable suspended in a real await of the generator -/
def nativeResume (ub : UB) (op : COp) (r : Resume) (a : AG ub.σ) : AG ub.σ × CallOut :=
  match op with
  | .aclose => unwrapClose a.closed (agResume ub a.frame r)
  | _ => unwrap a.closed (agResume ub a.frame r)

/-! ### GeneratorObjectIterator -/

/-- the coroutine body handed to `GeneratorObject()(…)`: `yield v` is `await g.ayield(v)`, i.e.
    `await self.monitor.oob(v)` (monitor 0 = the GeneratorObject's own Monitor).  Were the oob
    refused, RuntimeError("Monitor not active") would propagate out of the body's await. -/
def asGoi (ub : UB) : MBody where
  σ := ub.σ
  init := ub.init
  resume s r :=
    match ub.resume s r with
    | .yieldVal v s' => .oob 0 v s' (fun _ => .raise (.runtime rtNotActive) s')
    | .await y s' => .yield y s'
    | .ret s' => .ret 0 s'
    | .raise e s' => .raise e s'

structure Goi (ub : UB) where
  coro : CSt ub.σ
  env : Env              -- the GeneratorObject's Monitor is cell 0
  running : Bool         -- self.ag_running

def Goi.sys {ub : UB} (g : Goi ub) : Sys (ofM (asGoi ub)) := ⟨g.coro, g.env⟩

def Goi.put {ub : UB} (g : Goi ub) (x : Sys (ofM (asGoi ub))) (running : Bool) : Goi ub :=
  ⟨x.coro, x.env, running⟩

/-- `asend`, lines 337-349: the try/except/else/finally around `await self.monitor.aawait(...)` -/
def asendFinish : CallOut → Bool × CallOut
  | .pending y => (true, .pending y)
  | .raised (.oobData d) => (false, .returned d)                       -- except OOBData: return oob.data
  | .raised .stopAsync => (false, .raised (.runtime rtAgRaisedSAI))    -- except StopAsyncIteration
  | .raised e => (false, .raised e)
  | .returned _ => (false, .raised .stopAsync)                          -- else: raise StopAsyncIteration()

/-- `_athrow`, lines 397-424 (`isClose`: `type is None`) -/
def athrowFinish (isClose : Bool) : CallOut → Bool × CallOut
  | .pending y => (true, .pending y)
  | .raised (.oobData d) =>
    (false, if isClose then .raised (.runtime rtAgIgnoredGE) else .returned d)
  | .raised .stopAsync => (false, .raised (.runtime rtAgRaisedSAI))
  | .raised .genExit => (false, if isClose then .returned 0 else .raised .genExit)
  | .raised e => (false, .raised e)
  | .returned _ => (false, if isClose then .returned 0 else .raised .stopAsync)

def COp.monOp : COp → Op
  | .asend v => .aawait v            -- line 338
  | .athrow e => .athrow e           -- line 400
  | .aclose => .athrow .genExit      -- line 405

def COp.finish : COp → CallOut → Bool × CallOut
  | .asend _ => asendFinish
  | .athrow _ => athrowFinish false
  | .aclose => athrowFinish true

/-- first activation of the coroutine `it.asend(v)` / `it.athrow(e)` / `it.aclose()` -/
def goiStart (ub : UB) (op : COp) (g : Goi ub) : Goi ub × CallOut :=
  if g.running then (g, .raised (.runtime Proto.rtAlreadyRunning))       -- lines 330, 387
  else if SCoro.isDone g.coro then
    (g, match op with
      | .asend _ => .raised .stopAsync                                     -- line 333
      | _ => .returned 0)                                                  -- line 393
  else
    -- `_first_iter()` has no effect on the protocol; `self.ag_running = True`
    let x := callStart 0 op.monOp g.sys
    let f := op.finish x.2
    (g.put x.1 f.1, f.2)

def goiResume (ub : UB) (op : COp) (r : Resume) (g : Goi ub) : Goi ub × CallOut :=
  let x := callResume 0 op.monOp r g.sys
  let f := op.finish x.2
  (g.put x.1 f.1, f.2)

/-! ### await_sync / aiter_sync (coroutine.py:545-603), generic in the iterator -/

/-- `await_sync(helper())` where `helper` awaits `it.__anext__()`: run to the first suspension;
    finished → its outcome; suspended → throw SynchronousAbort in and raise SynchronousError
    whatever comes back (the state is the one after that throw). -/
def syncNext {S : Type} (start : S → S × CallOut) (resume : Resume → S → S × CallOut) (s : S) :
    S × CallOut :=
  match start s with
  | (s', .pending _) => ((resume (.throw .syncAbort) s').1, .raised (.runtime rtSyncError))
  | x => x

/-- what `aiter_sync` yields: values until the first exception; StopAsyncIteration ends it
    silently (`none`), any other exception propagates (`some e`).  `n` bounds the listing. -/
def aiterSync {S : Type} (next : S → S × CallOut) : Nat → S → List Val × Option Exc
  | 0, _ => ([], none)
  | n + 1, s =>
    match next s with
    | (s', .returned v) => let r := aiterSync next n s'; (v :: r.1, r.2)
    | (_, .raised .stopAsync) => ([], none)
    | (_, .raised e) => ([], some e)
    | (_, .pending _) => ([], some (.runtime rtSyncError))

/-! ### asyncgen hooks (`sys.set_asyncgen_hooks(firstiter, finalizer)`)

CPython (genobject.c `async_gen_init_hooks`, `_PyGen_Finalize`): the first `__anext__/asend/athrow/aclose`
call on an async generator runs `firstiter(agen)` once and captures the finalizer installed at that
moment; garbage collection of a generator whose frame has not run to its end (and which is not
`ag_closed`) hands it to the captured finalizer instead of closing it — MODELLED, NOT VERIFIED.
GeneratorObjectIterator (monitor.py `_first_iter`, `__del__`, as repaired by
fixes/C06-asyncgen-hooks.patch): the first activation of `asend/_athrow` on a still unstarted coroutine
runs `_first_iter` once; `__del__` hands an unfinished iterator to the captured finalizer. -/

/-- which hooks are installed -/
structure HookCfg where
  firstiter : Bool
  finalizer : Bool
  raises : Bool := false      -- the installed `firstiter` raises when called
deriving Repr, DecidableEq

/-- what a raising `firstiter` hook raises -/
def hookExc : Exc := .other 8

inductive HookEv where
  | firstiter
  | finalizer
deriving Repr, DecidableEq

/-- per-generator hook state: `ag_hooks_inited` / `hooks_inited`, and whether a finalizer was captured -/
structure HookSt where
  inited : Bool := false
  fin : Bool := false
deriving Repr, DecidableEq

def hookInit (h : HookCfg) (st : HookSt) : HookSt × List HookEv :=
  if st.inited then (st, [])
  else (⟨true, h.finalizer⟩, if h.firstiter then [.firstiter] else [])

/-- native: every consumer method call starts with `async_gen_init_hooks` -/
def nativeHookCall {σ : Type} (h : HookCfg) (st : HookSt) (_a : AG σ) : HookSt × List HookEv :=
  hookInit h st

/-- native: `_PyGen_Finalize` -/
def nativeHookGC {σ : Type} (st : HookSt) (a : AG σ) : List HookEv :=
  if st.fin && !SCoro.isDone a.frame && !a.closed then [.finalizer] else []

def isCreated {σ : Type} : CSt σ → Bool
  | .created _ => true
  | _ => false

/-- GeneratorObjectIterator: `asend`/`_athrow` reach `elif coro_is_new(self.coro): self._first_iter()` only
    when not running and not finished (lines 347-352, 404-412) -/
def goiHookCall {ub : UB} (h : HookCfg) (st : HookSt) (g : Goi ub) : HookSt × List HookEv :=
  if g.running || SCoro.isDone g.coro || !isCreated g.coro then (st, []) else hookInit h st

/-- GeneratorObjectIterator.__del__ -/
def goiHookGC {ub : UB} (st : HookSt) (g : Goi ub) : List HookEv :=
  if st.fin && !SCoro.isDone g.coro then [.finalizer] else []

/-- does this call's `firstiter` invocation raise? -/
def hookRaised (h : HookCfg) (evs : List HookEv) : Bool := h.raises && evs.contains .firstiter

/-- a consumer call of a native generator with the hooks in force: `async_gen_init_hooks` runs when the
    method is *called*; if `firstiter` raises the call fails there, the hooks stay initialised (the finalizer
    was captured first) and the generator is untouched -/
def nativeCallH (ub : UB) (h : HookCfg) (hs : HookSt) (op : COp) (a : AG ub.σ) :
    (AG ub.σ × HookSt) × CallOut × List HookEv :=
  let hk := nativeHookCall h hs a
  if hookRaised h hk.2 then ((a, hk.1), .raised hookExc, hk.2)
  else
    let x := nativeStart ub op a
    ((x.1, hk.1), x.2, hk.2)

/-- the same for the GeneratorObjectIterator: `_first_iter()` runs before `ag_running = True` and outside
    the try block, with `hooks_inited` set and the finalizer captured before `firstiter` is called
    (fixes/C06-firstiter-raises.patch) -/
def goiCallH (ub : UB) (h : HookCfg) (hs : HookSt) (op : COp) (g : Goi ub) :
    (Goi ub × HookSt) × CallOut × List HookEv :=
  let hk := goiHookCall h hs g
  if hookRaised h hk.2 then ((g, hk.1), .raised hookExc, hk.2)
  else
    let x := goiStart ub op g
    ((x.1, hk.1), x.2, hk.2)

/-- `__del__` BEFORE fixes/C06-asyncgen-hooks.patch: every iterator with a captured finalizer, finished
    or not (kept to document the finding `goi-vs-native:hooks`) -/
def goiHookGCOld (st : HookSt) : List HookEv :=
  if st.fin then [.finalizer] else []

end Asynkit.AsyncGen
