/-
Model of `asynkit.tools.PriorityQueue`, operation for operation (src/asynkit/tools.py).
Parametric in the heap library `H` (so theorems hold for every lawful `heapq`) and in the
priority comparison `plt` (`<` of the priority type; nothing else is ever used).
-/
import Asynkit.Model.Heap

namespace Asynkit

/-- `PriorityQueue`: `_sequence` and the heap list `_pq`. -/
structure PQ (π : Type) where
  seq : Nat
  pq  : List (Entry π)
deriving Repr

namespace PQ
variable {π : Type} (H : HeapLib (Entry π)) (plt : π → π → Bool)

def empty : PQ π := ⟨0, []⟩

def len (s : PQ π) : Nat := s.pq.length

/-- `_sequence = 0` whenever the heap became empty (pop/popitem/remove/find-tail). -/
def resetIfEmpty (seq : Nat) (l : List (Entry π)) : PQ π :=
  ⟨if l.isEmpty then 0 else seq, l⟩

/-- `add(pri, obj)`: `heappush(_pq, PriEntry(pri, _sequence, obj)); _sequence += 1` -/
def add (s : PQ π) (p : π) (x : Nat) : PQ π :=
  ⟨s.seq + 1, H.push (Entry.lt plt) s.pq ⟨p, s.seq, x⟩⟩

/-- `pop()/popitem()`; `none` = IndexError from `heappop` on an empty list. -/
def popEntry (s : PQ π) : Option (Entry π × PQ π) :=
  match H.pop (Entry.lt plt) s.pq with
  | none => none
  | some (e, l) => some (e, resetIfEmpty s.seq l)

/-- the append loop of `extend` -/
def appendAll (seq : Nat) (l : List (Entry π)) : List (π × Nat) → Nat × List (Entry π)
  | [] => (seq, l)
  | (p, x) :: es => appendAll (seq + 1) (l ++ [⟨p, seq, x⟩]) es

/-- `extend(entries)`: append all, then one `heapify`. -/
def extend (s : PQ π) (es : List (π × Nat)) : PQ π :=
  let r := appendAll s.seq s.pq es
  ⟨r.1, H.heapify (Entry.lt plt) r.2⟩

/-- `peek()/peekitem()`: `_pq[0]`, `none` = IndexError. -/
def peek (s : PQ π) : Option (Entry π) := s.pq.head?

/-- index of the first entry (array order) whose object equals `x` -/
def indexOfObj (l : List (Entry π)) (x : Nat) : Option Nat :=
  let i := l.findIdx (fun e => e.obj == x)
  if i < l.length then some i else none

/-- `pq[i] = pq.pop()` for a non-tail index `i` -/
def replaceWithTail (l : List (Entry π)) (i : Nat) : List (Entry π) :=
  match l.getLast? with
  | none => l
  | some last => l.dropLast.set i last

/-- `remove(obj)`; `none` = ValueError. Returns the removed entry. -/
def remove (s : PQ π) (x : Nat) : Option (Entry π × PQ π) :=
  match indexOfObj s.pq x with
  | none => none
  | some i =>
    match s.pq[i]? with
    | none => none
    | some e =>
      if i == 0 then
        match H.pop (Entry.lt plt) s.pq with
        | none => none
        | some (e0, l) => some (e0, resetIfEmpty s.seq l)
      else if i == s.pq.length - 1 then
        some (e, resetIfEmpty s.seq s.pq.dropLast)
      else
        some (e, resetIfEmpty s.seq (H.heapify (Entry.lt plt) (replaceWithTail s.pq i)))

/-- position (counted from the tail, as `enumerate(reversed(_pq))` does) of the first match -/
def revIndex (l : List (Entry π)) (key : Nat → Bool) : Option Nat :=
  let r := l.reverse
  let i := r.findIdx (fun e => key e.obj)
  if i < r.length then some i else none

/-- `find(key, remove)`: reversed scan; tail removal pops, any other removal swaps the tail in
    and heapifies (the sequence counter is only reset on the tail branch). -/
def find (s : PQ π) (key : Nat → Bool) (rm : Bool) : Option (Entry π) × PQ π :=
  match revIndex s.pq key with
  | none => (none, s)
  | some i =>
    match s.pq[s.pq.length - i - 1]? with
    | none => (none, s)
    | some e =>
      if rm then
        if i != 0 then
          (some e, ⟨s.seq, H.heapify (Entry.lt plt) (replaceWithTail s.pq (s.pq.length - i - 1))⟩)
        else
          (some e, resetIfEmpty s.seq s.pq.dropLast)
      else (some e, s)

/-- `reschedule(key, new_priority)`: in-place key change (sequence kept) + heapify, only when the
    priority differs under `<`. -/
def reschedule (s : PQ π) (key : Nat → Bool) (np : π) : Option Nat × PQ π :=
  match revIndex s.pq key with
  | none => (none, s)
  | some i =>
    let idx := s.pq.length - i - 1
    match s.pq[idx]? with
    | none => (none, s)
    | some e =>
      if plt e.pri np || plt np e.pri then
        (some e.obj, ⟨s.seq, H.heapify (Entry.lt plt) (s.pq.set idx { e with pri := np })⟩)
      else (some e.obj, s)

def refresh (s : PQ π) : PQ π := ⟨s.seq, H.heapify (Entry.lt plt) s.pq⟩

/-- `list.sort()` with `PriEntry.__lt__` (stable insertion sort; the result is unique when
    sequence numbers are distinct). -/
def stableInsert (lt : Entry π → Entry π → Bool) (x : Entry π) : List (Entry π) → List (Entry π)
  | [] => [x]
  | y :: ys => if lt y x then y :: stableInsert lt x ys else x :: y :: ys

def stableSort (lt : Entry π → Entry π → Bool) : List (Entry π) → List (Entry π)
  | [] => []
  | x :: xs => stableInsert lt x (stableSort lt xs)

def sort (s : PQ π) : PQ π := ⟨s.seq, stableSort (Entry.lt plt) s.pq⟩

def clear (_ : PQ π) : PQ π := ⟨0, []⟩

/-- `copy()` (entries are copied, so the copy is an independent value). -/
def copy (s : PQ π) : PQ π := s

/-- pop `n` entries with `heappop` (the body of the `ordereditems` loop after each `yield`). -/
def popN : Nat → List (Entry π) → List (Entry π) → List (Entry π) × List (Entry π)
  | 0, popped, l => (popped, l)
  | n + 1, popped, l =>
    match H.pop (Entry.lt plt) l with
    | none => (popped, l)
    | some (e, l') => popN n (popped ++ [e]) l'

def pushAll (l : List (Entry π)) : List (Entry π) → List (Entry π)
  | [] => l
  | e :: es => pushAll (H.push (Entry.lt plt) l e) es

/-- the `finally:` block of `ordereditems`: three restore strategies. -/
def restore (popped l : List (Entry π)) : List (Entry π) :=
  if popped.length ≥ l.length then popped ++ l
  else if popped.length ≥ l.length / 2 then H.heapify (Entry.lt plt) (popped ++ l)
  else pushAll H plt l popped

/-- heads yielded by `k` calls of `next()`: after each yield the head is popped. -/
def yields : Nat → List (Entry π) → List (Entry π)
  | 0, _ => []
  | k + 1, l =>
    match l with
    | [] => []
    | a :: _ =>
      match H.pop (Entry.lt plt) l with
      | none => [a]
      | some (_, l') => a :: yields k l'

/-- `ordereditems()` driven by `k` calls of `next()` and then `close()`.
    Yields `min k len` heads; pops happen only after the consumer asks for the next item, so
    `k ≤ len` leaves `k-1` entries popped at close time and `k > len` exhausts the queue.
    `k = 0` closes a generator that never started: nothing runs. -/
def ordered (s : PQ π) (k : Nat) : List (Entry π) × PQ π :=
  if k == 0 then ([], s) else
  let pops := if k > s.pq.length then s.pq.length else k - 1
  let r := popN H plt pops [] s.pq
  (yields H plt k s.pq, ⟨s.seq, restore H plt r.1 r.2⟩)

/-- drain: pop until empty (what a consumer observes as the pop order) -/
def drain : Nat → PQ π → List (Entry π)
  | 0, _ => []
  | n + 1, s =>
    match popEntry H plt s with
    | none => []
    | some (e, s') => e :: drain n s'

end PQ
end Asynkit
