/-
Model of `src/asynkit/monitor.py`, classes `Monitor` and `BoundMonitor` (lines 50-280),
written from the Python line by line.  Core Lean only.

Ingredients
* `Env`      : the `Monitor.state` cell of every monitor (0 idle / 1 inside `_asend` / -1 oob value
               in flight), indexed by a monitor id.
* `MBody`    : an arbitrary coroutine body that may, besides really suspending (`yield y`),
               execute `await m.oob(d)` for any monitor `m` (a "system call" `Step.oob`).  The
               lines of `Monitor.oob` are `resolve`: state = 0 → RuntimeError raised inside
               the body (the body's reaction is the `refused` continuation of the step),
               otherwise state := -1 and `d` is yielded.
* `SBody`    : a coroutine running against the monitor cells (`resume : σ → Resume → Env → SRes σ`).
               `ofM b` is the leaf, `nest p c` a parent body `p` that drives the sub-coroutine `c`
               through monitors (`PStep.sub`), so monitors nest to any depth.
* `SCoro`    : CPython's coroutine-object envelope (`send/throw/close`, PEP 479, "cannot reuse",
               "ignored GeneratorExit") around an `SBody`  — modelled, not verified.
* `asendStart/asendResume` : the generator `Monitor._asend` (first activation / resumption at its
               `yield out_value`).  `callStart/callResume/callClose` : the five entry points
               `aawait/athrow/aclose/start/try_await` as resumable calls.
-/
import Asynkit.Model.Proto

namespace Asynkit.Monitor
open Asynkit.Proto (Val Exc Resume)

abbrev MonId := Nat

/-- `Monitor.state` of every monitor. -/
abbrev Env := MonId → Int

def Env.set (env : Env) (m : MonId) (x : Int) : Env := fun k => if k = m then x else env k

@[simp] theorem Env.set_same (env : Env) (m : MonId) (x : Int) : (env.set m x) m = x := by
  simp [Env.set]

@[simp] theorem Env.set_other (env : Env) (m k : MonId) (x : Int) (h : k ≠ m) :
    (env.set m x) k = env k := by
  simp [Env.set, h]

@[simp] theorem Env.set_set (env : Env) (m : MonId) (x y : Int) :
    (env.set m x).set m y = env.set m y := by
  funext k; simp only [Env.set]; split <;> rfl

/-- RuntimeError phrases of monitor.py (tags continue Proto's numbering). -/
def rtReenter : Nat := 10        -- "Monitor cannot be re-entered"            (line 77)
def rtNotActive : Nat := 11      -- "Monitor not active"                      (line 176)
def rtRaisedOOB : Nat := 12      -- "coroutine raised OOBData"                (line 85)
def rtMonIgnoredGE : Nat := 13   -- "Monitor coroutine ignored GeneratorExit" (line 193)
def rtNoOob : Nat := 14          -- "Coroutine did not await Monitor.oob()"   (line 205)

/-- What travels upwards from a suspended coroutine: an ordinary awaitable/token (`plain`), or the
    private `_OOBRequest(monitor, data)` object that `Monitor.oob` yields (monitor.py 50-59).  A body's
    own suspensions are `Val`s (`Step.yield`), so a body cannot forge a request. -/
inductive YV where
  | plain (v : Val)
  | req (m : MonId) (d : Val)
deriving Repr, DecidableEq, Inhabited

/-! ### bodies -/

/-- One resumption of a body, run up to its next interaction with the outside.
    `oob m d s refused`: the body executes `await m.oob(d)`; if the monitor accepts, the body is
    suspended in state `s` (and the value/exception it is resumed with is what `oob()`
    returns/raises); if `Monitor.oob` raises RuntimeError("Monitor not active") the body carries on
    synchronously and `refused ()` is its next interaction.  (`Step` is inductive, so a body that
    retries a refused `oob` for ever — a Python busy loop that never returns — is not a body.) -/
inductive Step (σ : Type) where
  | yield (y : Val) (s : σ)
  | oob (m : MonId) (d : Val) (s : σ) (refused : Unit → Step σ)
  | ret (v : Val) (s : σ)
  | raise (e : Exc) (s : σ)

structure MBody where
  σ : Type
  init : σ
  resume : σ → Resume → Step σ

/-- Result of resuming a coroutine that runs against the monitor cells. -/
inductive SRes (σ : Type) where
  | yield (y : YV) (s : σ) (env : Env)
  | ret (v : Val) (s : σ) (env : Env)
  | raise (e : Exc) (s : σ) (env : Env)

structure SBody where
  σ : Type
  init : σ
  resume : σ → Resume → Env → SRes σ

/-- `Monitor.oob` (lines 179-196) applied to the step of a body:
    `if self.state == 0: raise RuntimeError` (a left-over -1 is accepted), `self.state = -1`,
    `return (yield _OOBRequest(self, data))`. -/
def resolve {σ : Type} : Step σ → Env → SRes σ
  | .yield y s, env => .yield (.plain y) s env
  | .oob m d s refused, env =>
    if env m = 0 then resolve (refused ()) env else .yield (.req m d) s (env.set m (-1))
  | .ret v s, env => .ret v s env
  | .raise e s, env => .raise e s env

/-- A leaf coroutine. -/
def ofM (b : MBody) : SBody where
  σ := b.σ
  init := b.init
  resume s r env := resolve (b.resume s r) env

/-! ### CPython coroutine object around an `SBody` (modelled, not verified) -/

inductive CSt (σ : Type) where
  | created (s : σ)
  | susp (s : σ)
  | done (s : σ)      -- finished; `s` = the body's final state (its side effects)

inductive SOut where
  | yield (y : YV)
  | ret (v : Val)
  | raise (e : Exc)
deriving Repr, DecidableEq, Inhabited

namespace SCoro
variable {σ : Type}

/-- PEP 479: a StopIteration leaving the body becomes RuntimeError. -/
def after : SRes σ → CSt σ × SOut × Env
  | .yield y s env => (.susp s, .yield y, env)
  | .ret v s env => (.done s, .ret v, env)
  | .raise (.stopIter _) s env => (.done s, .raise (.runtime Proto.rtRaisedStopIter), env)
  | .raise e s env => (.done s, .raise e, env)

def send (c : SBody) (st : CSt c.σ) (v : Val) (env : Env) : CSt c.σ × SOut × Env :=
  match st with
  | .created s => if v ≠ 0 then (.created s, .raise .typeErr, env) else after (c.resume s (.send v) env)
  | .susp s => after (c.resume s (.send v) env)
  | .done s => (.done s, .raise (.runtime Proto.rtCannotReuse), env)

def throw (c : SBody) (st : CSt c.σ) (e : Exc) (env : Env) : CSt c.σ × SOut × Env :=
  match st with
  | .created s => (.done s, .raise e, env)
  | .susp s => after (c.resume s (.throw e) env)
  | .done s => (.done s, .raise (.runtime Proto.rtCannotReuse), env)

/-- `coro.close()`; `.ret 0` = returned None. -/
def close (c : SBody) (st : CSt c.σ) (env : Env) : CSt c.σ × SOut × Env :=
  match st with
  | .created s => (.done s, .ret 0, env)
  | .done s => (.done s, .ret 0, env)
  | .susp s =>
    match after (c.resume s (.throw .genExit) env) with
    | (st', .yield _, env') => (st', .raise (.runtime Proto.rtIgnoredGenExit), env')
    | (st', .ret _, env') => (st', .ret 0, env')
    | (st', .raise .genExit, env') => (st', .ret 0, env')
    | (st', .raise e, env') => (st', .raise e, env')

def resume (c : SBody) (st : CSt c.σ) (r : Resume) (env : Env) : CSt c.σ × SOut × Env :=
  match r with
  | .send v => send c st v env
  | .throw e => throw c st e env

def isDone : CSt σ → Bool
  | .done _ => true
  | _ => false

end SCoro

/-! ### `Monitor._asend` (lines 64-108) -/

/-- the coroutine handed to the monitor + all monitor cells -/
structure Sys (c : SBody) where
  coro : CSt c.σ
  env : Env

/-- What a call (`aawait(...)` etc., itself a coroutine) does when activated: it is suspended
    with `y` passed to whoever drives it, or it finished. -/
inductive CallOut where
  | pending (y : YV)
  | returned (v : Val)
  | raised (e : Exc)
deriving Repr, DecidableEq, Inhabited

/-- top of `while True:` with `out_value = y` (lines 99-108):
    `if self.state == -1: self.state = 1; if isinstance(out_value, _OOBRequest) and
    out_value.monitor is self: raise OOBData(out_value.data)` (then `finally: state = 0`); in every
    other case (a left-over -1 has just been reset) suspend in `in_value = yield out_value`. -/
def relayTop {c : SBody} (m : MonId) (y : YV) (cs : CSt c.σ) (env : Env) : Sys c × CallOut :=
  if env m = -1 then
    match y with
    | .req m' d =>
      if m' = m then (⟨cs, (env.set m 1).set m 0⟩, .raised (.oobData d))
      else (⟨cs, env.set m 1⟩, .pending y)
    | .plain _ => (⟨cs, env.set m 1⟩, .pending y)
  else (⟨cs, env⟩, .pending y)

/-- after `out_value = coro.send(in_value)` / `coro.throw(exc)` inside the loop (lines 97-106):
    StopIteration → return its value; any other exception propagates; both through
    `finally: self.state = 0`. -/
def relayAfter {c : SBody} (m : MonId) : CSt c.σ × SOut × Env → Sys c × CallOut
  | (cs, .yield y, env) => relayTop m y cs env
  | (cs, .ret v, env) => (⟨cs, env.set m 0⟩, .returned v)
  -- `except StopIteration as exc: return exc.value` also catches a StopIteration *object* that was
  -- thrown into a never-started coroutine and came straight back (no frame ran, so no PEP 479)
  | (cs, .raise (.stopIter v), env) => (⟨cs, env.set m 0⟩, .returned v)
  | (cs, .raise e, env) => (⟨cs, env.set m 0⟩, .raised e)

/-- first activation of the generator: lines 76-86, then the loop.
    `first` is `callable(*args)`: `coro.send(data)` or `coro.throw(type, value, tb)`. -/
def asendStart {c : SBody} (m : MonId) (first : Resume) (sys : Sys c) : Sys c × CallOut :=
  if sys.env m ≠ 0 then (sys, .raised (.runtime rtReenter))
  else
    match SCoro.resume c sys.coro first (sys.env.set m 1) with
    | (cs, .raise (.oobData _), env) => (⟨cs, env.set m 0⟩, .raised (.runtime rtRaisedOOB))
    | r => relayAfter m r

/-- resumption of the generator suspended at `in_value = yield out_value` (lines 92-106):
    GeneratorExit → `coro.close(); raise`; other exception → `coro.throw(exc)`;
    value → `coro.send(in_value)`. -/
def asendResume {c : SBody} (m : MonId) (r : Resume) (sys : Sys c) : Sys c × CallOut :=
  match r with
  | .throw .genExit =>
    match SCoro.close c sys.coro sys.env with
    | (cs, .raise e, env) => (⟨cs, env.set m 0⟩, .raised e)
    | (cs, _, env) => (⟨cs, env.set m 0⟩, .raised .genExit)
  | .throw e => relayAfter m (SCoro.throw c sys.coro e sys.env)
  | .send v => relayAfter m (SCoro.send c sys.coro v sys.env)

/-! ### the entry points (lines 110-222) and BoundMonitor (lines 225-280) -/

inductive Op where
  | aawait (v : Val)
  | athrow (e : Exc)
  | aclose
  | start
  | tryAwait (v : Val) (sentinel : Val)
deriving Repr, DecidableEq, Inhabited

/-- `callable(*args)` of each entry point. -/
def Op.first : Op → Resume
  | .aawait v => .send v            -- line 122
  | .athrow e => .throw e           -- line 165
  | .aclose => .throw .genExit      -- line 189
  | .start => .send 0               -- line 202
  | .tryAwait v _ => .send v        -- line 220

/-- what the entry point does with the completion of `await self._asend(...)`. -/
def Op.finish : Op → CallOut → CallOut
  | _, .pending y => .pending y
  | .aawait _, o => o
  | .athrow _, o => o
  -- aclose, lines 188-193
  | .aclose, .returned _ => .returned 0
  | .aclose, .raised .genExit => .returned 0
  | .aclose, .raised (.oobData _) => .raised (.runtime rtMonIgnoredGE)
  | .aclose, .raised e => .raised e
  -- start, lines 201-205
  | .start, .raised (.oobData d) => .returned d
  | .start, .raised e => .raised e
  | .start, .returned _ => .raised (.runtime rtNoOob)
  -- try_await, lines 219-222
  | .tryAwait _ s, .raised (.oobData _) => .returned s
  | .tryAwait _ _, o => o

/-- first activation of the coroutine `m.<op>(coro, …)`. -/
def callStart {c : SBody} (m : MonId) (op : Op) (sys : Sys c) : Sys c × CallOut :=
  match op, SCoro.isDone sys.coro with
  | .aclose, true => (sys, .returned 0)                -- `if coro.cr_frame is None: return`
  | _, _ =>
    let r := asendStart m op.first sys
    (r.1, op.finish r.2)

/-- the call is suspended (at the relay's `yield`) and is resumed by `send`/`throw`. -/
def callResume {c : SBody} (m : MonId) (op : Op) (r : Resume) (sys : Sys c) : Sys c × CallOut :=
  let x := asendResume m r sys
  (x.1, op.finish x.2)

/-- `.close()` of the suspended call coroutine: GeneratorExit is thrown in; a GeneratorExit (or a
    return) coming back is a clean close (`returned 0`). -/
def callClose {c : SBody} (m : MonId) (op : Op) (sys : Sys c) : Sys c × CallOut :=
  match callResume m op (.throw .genExit) sys with
  | (s, .raised .genExit) => (s, .returned 0)
  | (s, .returned _) => (s, .returned 0)
  | (s, .pending _) => (s, .raised (.runtime Proto.rtIgnoredGenExit))
  | x => x

/-- `BoundMonitor` forwards every method to the monitor with its stored coroutine; `await bound` is
    `aawait(None)`.  Starting and resuming a bound call is the monitor's call (`boundStart = callStart`);
    the one observable effect of the extra coroutine frame is PEP 380's treatment of a thrown
    GeneratorExit: the inner call is closed with `close()`, and when that succeeds (even by the
    inner call *returning*, as `aclose` does) GeneratorExit is raised in the BoundMonitor frame. -/
def boundAwait : Op := .aawait 0

def boundStart {c : SBody} (m : MonId) (op : Op) (sys : Sys c) : Sys c × CallOut := callStart m op sys

def boundResume {c : SBody} (m : MonId) (op : Op) (r : Resume) (sys : Sys c) : Sys c × CallOut :=
  match r with
  | .throw .genExit =>
    match callResume m op r sys with
    | (s, .returned _) => (s, .raised .genExit)
    | x => x
  | _ => callResume m op r sys

def boundClose {c : SBody} (m : MonId) (op : Op) (sys : Sys c) : Sys c × CallOut :=
  match boundResume m op (.throw .genExit) sys with
  | (s, .raised .genExit) => (s, .returned 0)
  | (s, .returned _) => (s, .returned 0)
  | (s, .pending _) => (s, .raised (.runtime Proto.rtIgnoredGenExit))
  | x => x

/-! ### nesting: a parent body that drives a sub-coroutine through monitors -/

/-- Like `Step`, plus `sub m op k`: the parent executes `await m.<op>(child, …)` and continues
    with `k (send result)` / `k (throw exception)`. -/
inductive PStep (σ : Type) where
  | yield (y : Val) (s : σ)
  | oob (m : MonId) (d : Val) (s : σ) (refused : Unit → PStep σ)
  | sub (m : MonId) (op : Op) (s : σ) (k : Option Resume → Resume → PStep σ)
    -- `s`: the parent's state while it waits.  `k how result`: `how = none` when the sub-call
    -- finished within the same activation, `some r` when the parent was re-activated from outside
    -- with `r` while waiting (its reaction may depend on it: PEP 380 delivers a GeneratorExit to
    -- nested frames of the parent with close())
  | ret (v : Val) (s : σ)
  | raise (e : Exc) (s : σ)

structure PBody where
  σ : Type
  init : σ
  resume : σ → Resume → PStep σ

inductive NSt (σp : Type) (σc : Type) where
  | at (s : σp) (cc : CSt σc)
  | inSub (m : MonId) (op : Op) (s : σp) (k : Option Resume → Resume → PStep σp) (cc : CSt σc)

def CallOut.toResume : CallOut → Resume
  | .returned v => .send v
  | .raised e => .throw e
  | .pending _ => .send 0     -- not used

/-- run the parent up to its next suspension -/
def nestRun (p : PBody) (c : SBody) : PStep p.σ → CSt c.σ → Env → SRes (NSt p.σ c.σ)
  | .yield y s, cc, env => .yield (.plain y) (.at s cc) env
  | .oob m d s refused, cc, env =>
    if env m = 0 then nestRun p c (refused ()) cc env else .yield (.req m d) (.at s cc) (env.set m (-1))
  | .sub m op s k, cc, env =>
    match callStart m op (⟨cc, env⟩ : Sys c) with
    | (⟨cc', env'⟩, .pending y) => .yield y (.inSub m op s k cc') env'
    | (⟨cc', env'⟩, .returned v) => nestRun p c (k none (.send v)) cc' env'
    | (⟨cc', env'⟩, .raised e) => nestRun p c (k none (.throw e)) cc' env'
  | .ret v s, cc, env => .ret v (.at s cc) env
  | .raise e s, cc, env => .raise e (.at s cc) env

def nest (p : PBody) (c : SBody) : SBody where
  σ := NSt p.σ c.σ
  init := .at p.init (.created c.init)
  resume st r env :=
    match st with
    | .at s cc => nestRun p c (p.resume s r) cc env
    | .inSub m op s k cc =>
      match callResume m op r (⟨cc, env⟩ : Sys c) with
      | (⟨cc', env'⟩, .pending y) => .yield y (.inSub m op s k cc') env'
      | (⟨cc', env'⟩, .returned v) => nestRun p c (k (some r) (.send v)) cc' env'
      | (⟨cc', env'⟩, .raised e) => nestRun p c (k (some r) (.throw e)) cc' env'

end Asynkit.Monitor
