/-
Model of `PriorityCondition.wait/_notify` + `_released` (src/asynkit/experimental/priority.py)
and of `InterruptCondition.wait` (src/asynkit/experimental/interrupt.py, notify inherited from
`asyncio.Condition`), as small-step machines — one control state per `await` and per
continuation of a `finally` — over an abstract task/future/lock kernel.

Abstract kernel
* tasks are identified by naturals; an exception *instance* is a natural (its identity);
* the environment may `deliver` any CancelledError-derived exception to a task suspended inside
  `wait()` (while waiting on its future, after the future was set, while queued on the lock);
  a delivered exception is raised at the task's current `await` when the task next runs
  (asyncio `Task.__step`), at most once; `Task.cancel()` on a task blocked on a pending future also
  cancels that future;
* the underlying lock is abstract: `acquire()` completes only in a state where the lock is free
  and makes the caller the owner, it may complete immediately or suspend first (the lock's own
  queueing discipline decides; it is left nondeterministic here), and an exception delivered to
  a task suspended in `acquire()` is raised from it without the lock being taken.
  (Mutual exclusion of PriorityLock is property C13; of asyncio.Lock it is stdlib behaviour.)
* the waiter queue is the C17 reference model of `tools.PriorityQueue`: the tids in arrival order;
  `ordereditems()` enumerates them by (priority, arrival).

Core Lean only (this file is part of the executable driver `Drivers/Cond.lean`).
-/
namespace Asynkit.Cond

/-- which class: `PriorityCondition` or `InterruptCondition` -/
inductive Kind | pc | ic
deriving DecidableEq, Repr

/-- state of the future created by `wait()` -/
inductive Fut | pending | done | cancelled
deriving DecidableEq, Repr

/-- control point of a task with respect to `wait()`:
* `idle`      — not inside `wait()`
* `waiting`   — suspended in `await fut` (lock released, future queued)
* `reacq`     — running the `finally:` re-acquire loop, about to call `lock.acquire()`
* `acquiring` — suspended inside `lock.acquire()` -/
inductive PC | idle | waiting | reacq | acquiring
deriving DecidableEq, Repr

inductive Out | ret | raise (e : Nat)
deriving DecidableEq, Repr

structure Waiter where
  pc        : PC := .idle
  pri       : Int := 0            -- `priority` computed at the start of wait()
  arr       : Nat := 0            -- arrival stamp (ghost: position in arrival order)
  fut       : Fut := .pending
  cur       : Option Nat := none  -- exception propagating out of `await fut` (through the finally)
  err       : Option Nat := none  -- the variable `err` of the re-acquire loop
  inflight  : List Nat := []      -- delivered, not yet raised
  delivered : List Nat := []      -- ghost: everything ever delivered to this task
  inWF      : Bool := false       -- inside `wait_for`
  thrown    : Bool := false       -- `task_throw` detached the task from its future (`_fut_waiter = None`):
                                  -- a later `Task.cancel()` no longer cancels that future
deriving Repr

/-- ghost record written when `wait()` (or `wait_for()`) returns or raises -/
structure ExitRec where
  tid       : Nat
  wf        : Bool                -- exit of wait_for (true) / of wait (false)
  out       : Out
  ownerAt   : Option Nat          -- lock owner at the moment of the exit
  delivAt   : List Nat            -- exceptions delivered to the task so far
  notified  : Bool                -- the waiter's future had been set by a notify
  passedOn  : Bool                -- `_notify(1)` was executed on the way out
  pendingBefore : List Nat        -- not-yet-notified waiters, most urgent first, before the hand-over
  handedTo  : List Nat            -- waiters whose future the hand-over set
deriving Repr

structure State where
  kind    : Kind
  owner   : Option Nat := none
  w       : Nat → Waiter := fun _ => {}
  queue   : List Nat := []        -- cond._waiters, arrival order
  arrival : Nat := 0
  exits   : List ExitRec := []    -- newest first
  inwait  : List Nat := []        -- ghost: the tasks currently inside wait() (pc ≠ idle), in order of entry
  issued  : Nat := 0              -- ghost: futures set by notify/notify_all/_notify(1) so far (one per woken waiter)

def init (k : Kind) : State := { kind := k }

def setW (w : Nat → Waiter) (j : Nat) (x : Waiter) : Nat → Waiter :=
  fun i => if i = j then x else w i

/-! ### the waiter queue in notification order -/

/-- `(priority, arrival)` comparison = `PriEntry.__lt__` on the reference model -/
def keyLe (w : Nat → Waiter) (a b : Nat) : Bool :=
  decide ((w a).pri < (w b).pri) || (decide ((w a).pri = (w b).pri) && decide ((w a).arr ≤ (w b).arr))

/-- ordered insertion by `(priority, arrival)` -/
def insertKey (w : Nat → Waiter) (x : Nat) : List Nat → List Nat
  | [] => [x]
  | y :: ys => if keyLe w x y then x :: y :: ys else y :: insertKey w x ys

/-- the queue sorted by `(priority, arrival)` — the pop order of the priority queue -/
def sortQ (w : Nat → Waiter) : List Nat → List Nat
  | [] => []
  | x :: xs => insertKey w x (sortQ w xs)

/-- `ordereditems()` for PriorityCondition, the deque itself for InterruptCondition -/
def orderedQ (k : Kind) (w : Nat → Waiter) (q : List Nat) : List Nat :=
  match k with
  | .pc => sortQ w q
  | .ic => q

def isPending (w : Nat → Waiter) (t : Nat) : Bool := (w t).fut == .pending

def setDone (w : Nat → Waiter) (t : Nat) : Nat → Waiter := setW w t { w t with fut := .done }

/-- `PriorityCondition._notify(n)`:
```
count = 0
for _, fut in ordereditems:
    if not fut.done():
        fut.set_result(True); count += 1
        if count >= n: break
```
returns the new waiter table and the tids whose future was set (in order). -/
def pcWalk (n : Nat) : Nat → (Nat → Waiter) → List Nat → (Nat → Waiter) × List Nat
  | _, w, [] => (w, [])
  | count, w, t :: ts =>
    if isPending w t then
      if count + 1 ≥ n then (setDone w t, [t])
      else
        let r := pcWalk n (count + 1) (setDone w t) ts
        (r.1, t :: r.2)
    else pcWalk n count w ts

/-- `asyncio.Condition.notify(n)`:
```
idx = 0
for fut in self._waiters:
    if idx >= n: break
    if not fut.done():
        idx += 1; fut.set_result(False)
``` -/
def icWalk (n : Nat) : Nat → (Nat → Waiter) → List Nat → (Nat → Waiter) × List Nat
  | _, w, [] => (w, [])
  | idx, w, t :: ts =>
    if idx ≥ n then (w, [])
    else if isPending w t then
      let r := icWalk n (idx + 1) (setDone w t) ts
      (r.1, t :: r.2)
    else icWalk n idx w ts

def notifyFn (k : Kind) (n : Nat) (w : Nat → Waiter) (q : List Nat) : (Nat → Waiter) × List Nat :=
  match k with
  | .pc => pcWalk n 0 w (orderedQ .pc w q)
  | .ic => icWalk n 0 w (orderedQ .ic w q)

/-- the not-yet-notified waiters in notification order -/
def pendingOrdered (k : Kind) (w : Nat → Waiter) (q : List Nat) : List Nat :=
  (orderedQ k w q).filter (isPending w)

/-! ### events -/

inductive Resume | ok | exc (e : Nat)
deriving DecidableEq, Repr

inductive Event
  | acq (j : Nat)                      -- `await lock.acquire()` outside wait() completes
  | rel (j : Nat)                      -- `lock.release()` outside wait()
  | wfStart (j : Nat)                  -- `wait_for(pred)` called
  | wfPred (j : Nat) (b : Bool)        -- `predicate()` evaluated inside wait_for
  | waitStart (j : Nat) (pri : Int)    -- wait(): release, create future, queue it, `await fut`
  | deliver (j : Nat) (e : Nat) (cancel : Bool)  -- environment: exception `e` delivered to `j`
  | wake (j : Nat) (r : Resume)        -- `await fut` resumes (normally / raising e); finally: remove
  | acqImm (j : Nat)                   -- `lock.acquire()` of the re-acquire loop completes at once
  | acqBlock (j : Nat)                 -- ... or suspends
  | acqOk (j : Nat)                    -- the suspended `lock.acquire()` completes
  | acqExc (j : Nat) (e : Nat)         -- the suspended `lock.acquire()` raises e: `err = e`, retry
  | notify (j : Nat) (n : Nat)         -- `cond.notify(n)` by the lock owner
  | notifyAll (j : Nat)                -- `cond.notify_all()` = notify(len(_waiters))
deriving Repr

/-- what leaves `wait()` once the lock is re-acquired:
`if err is not None: raise err` else the exception already propagating, else `return True` -/
def outcome (x : Waiter) : Out :=
  match x.err, x.cur with
  | some e, _ => .raise e
  | none, some e => .raise e
  | none, none => .ret

/-- tail of `wait()` once `lock.acquire()` succeeded (the caller `j` is already the owner):
PriorityCondition: `except BaseException: self._notify(1); raise`; then the ghost exit record(s). -/
def finish (s : State) (j : Nat) : State :=
  let x := s.w j
  let out := outcome x
  let pass := decide (out ≠ .ret) && decide (s.kind = .pc)
  let pend := pendingOrdered s.kind s.w s.queue
  let r := if pass then notifyFn .pc 1 s.w s.queue else (s.w, [])
  let rec1 : ExitRec :=
    { tid := j, wf := false, out := out, ownerAt := s.owner, delivAt := x.delivered,
      notified := decide (x.fut = .done), passedOn := pass, pendingBefore := pend, handedTo := r.2 }
  let leaveWF := x.inWF && decide (out ≠ .ret)
  let x' : Waiter := { r.1 j with pc := .idle, cur := none, err := none,
                                  inWF := x.inWF && !leaveWF }
  let exits := if leaveWF then { rec1 with wf := true } :: rec1 :: s.exits else rec1 :: s.exits
  { s with w := setW r.1 j x', exits := exits, inwait := s.inwait.erase j,
           issued := s.issued + r.2.length }

def step (s : State) : Event → Option State
  | .acq j =>
    if s.owner = none ∧ (s.w j).pc = .idle ∧ (s.w j).inWF = false then
      some { s with owner := some j } else none
  | .rel j =>
    if s.owner = some j ∧ (s.w j).pc = .idle ∧ (s.w j).inWF = false then
      some { s with owner := none } else none
  | .wfStart j =>
    if s.owner = some j ∧ (s.w j).pc = .idle ∧ (s.w j).inWF = false then
      some { s with w := setW s.w j { s.w j with inWF := true } } else none
  | .wfPred j b =>
    if (s.w j).pc = .idle ∧ (s.w j).inWF = true then
      if b then
        some { s with
          w := setW s.w j { s.w j with inWF := false },
          exits := { tid := j, wf := true, out := .ret, ownerAt := s.owner,
                     delivAt := (s.w j).delivered, notified := false, passedOn := false,
                     pendingBefore := [], handedTo := [] } :: s.exits }
      else some s
    else none
  | .waitStart j pri =>
    if s.owner = some j ∧ (s.w j).pc = .idle then
      some { s with
        owner := none,
        w := setW s.w j { s.w j with pc := .waiting, pri := pri, arr := s.arrival, fut := .pending,
                                     cur := none, err := none, thrown := false },
        queue := s.queue ++ [j],
        arrival := s.arrival + 1,
        inwait := s.inwait ++ [j] }
    else none
  | .deliver j e c =>
    let x := s.w j
    if x.pc = .waiting ∨ x.pc = .acquiring then
      let fut := if c && decide (x.pc = .waiting) && decide (x.fut = .pending) && !x.thrown
                 then Fut.cancelled else x.fut
      some { s with w := setW s.w j { x with inflight := e :: x.inflight,
                                             delivered := e :: x.delivered, fut := fut,
                                             thrown := x.thrown || !c } }
    else none
  | .wake j r =>
    let x := s.w j
    if x.pc = .waiting then
      match r with
      | .ok =>
        if x.fut = .done then
          some { s with w := setW s.w j { x with pc := .reacq, cur := none, err := none },
                        queue := s.queue.erase j }
        else none
      | .exc e =>
        if e ∈ x.inflight then
          some { s with w := setW s.w j { x with pc := .reacq, cur := some e, err := none,
                                                 inflight := x.inflight.erase e },
                        queue := s.queue.erase j }
        else none
    else none
  | .acqBlock j =>
    if (s.w j).pc = .reacq then
      some { s with w := setW s.w j { s.w j with pc := .acquiring } } else none
  | .acqImm j =>
    if (s.w j).pc = .reacq ∧ s.owner = none then
      some (finish { s with owner := some j } j) else none
  | .acqOk j =>
    if (s.w j).pc = .acquiring ∧ s.owner = none then
      some (finish { s with owner := some j } j) else none
  | .acqExc j e =>
    let x := s.w j
    if x.pc = .acquiring ∧ e ∈ x.inflight then
      some { s with w := setW s.w j { x with pc := .reacq, err := some e,
                                             inflight := x.inflight.erase e } }
    else none
  | .notify j n =>
    if s.owner = some j then
      some { s with w := (notifyFn s.kind n s.w s.queue).1,
                    issued := s.issued + (notifyFn s.kind n s.w s.queue).2.length } else none
  | .notifyAll j =>
    if s.owner = some j then
      some { s with w := (notifyFn s.kind s.queue.length s.w s.queue).1,
                    issued := s.issued + (notifyFn s.kind s.queue.length s.w s.queue).2.length } else none

/-- run a whole event sequence; `none` as soon as an event is not enabled -/
def run (s : State) : List Event → Option State
  | [] => some s
  | e :: es => match step s e with
    | none => none
    | some s' => run s' es

/-- reachable states of the transition system for class `k` -/
def Reachable (k : Kind) (s : State) : Prop := ∃ es, run (init k) es = some s

end Asynkit.Cond
