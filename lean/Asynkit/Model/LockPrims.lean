/-
The primitives the generated translation of the lock layer (`Asynkit/Gen/Lock.lean`, produced by
translator/lock2lean.py from src/asynkit/experimental/priority.py) refers to.  Each is ONE attribute
access or ONE call of something that is *not* asynkit lock code: asyncio (current_task, Future,
Task), weakref, the `tools.PriorityQueue` container (property C17) and the priority loop's
`task_reschedule` (properties C10 / C11's ready keys), all on the state of `Asynkit/Model/Lock.lean`.

Representation choices (hand-modelled, validated by the trace acceptance of C11-C13):
* a lock, a task, an event is its index; `weakref.ref(task)()` is the task (references never die
  while the task is queued or owns the lock);
* `lock._waiters` is `None` or a `PriorityQueue`; `None` and the empty queue are identified;
  an entry `(fut, weakref.ref(task))` queued with key `p` is the `Waiter` `⟨task, p, fut state⟩`;
  iteration visits the entries in arrival order (the translated loops only compute order-independent
  results: "some future is done", "minimum of the priorities");
* a future created by `acquire` is identified with (lock, task of its entry);
* `task._holding_locks` (a set) is a duplicate-free list.
-/
import Asynkit.Model.Lock

namespace Asynkit.Lock

/-- the ways the translated functions can raise -/
inductive LockErr where
  | assertion        -- an `assert` failed
  | notAcquired      -- RuntimeError("Lock is not acquired.")
  | indexError       -- `peek()` on an empty queue
  | attributeError   -- a lock-layer method called on a task that is not a PriorityTask, uncaught
  deriving DecidableEq, Repr

/-- `x.method(...)` inside `try/except AttributeError`: only a PriorityTask has the lock-layer methods -/
def isPrio (s : State) (t : Nat) : Bool := (s.tasks t).prio.isSome

/-- `asyncio.current_task()` -/
def currentTask (s : State) : Option Nat := s.cur

/-- `lock._locked` -/
def lockLocked (s : State) (k : Nat) : Bool := (s.locks k).locked
/-- `lock._locked = b` -/
def setLocked (s : State) (k : Nat) (b : Bool) : State := s.setLock k { s.locks k with locked := b }
/-- `lock._owning` / `lock._owning()` -/
def lockOwning (s : State) (k : Nat) : Option Nat := (s.locks k).owner
/-- `lock._owning = weakref.ref(task)` / `= None` -/
def setOwning (s : State) (k : Nat) (o : Option Nat) : State := s.setLock k { s.locks k with owner := o }

/-- the entries of `lock._waiters` (`[]` for `None`) -/
def waitersOf (s : State) (k : Nat) : List Waiter := (s.locks k).waiters
/-- `lock._waiters = PriorityQueue()` (only executed when it was `None`) -/
def newWaiters (s : State) (k : Nat) : State := s.setLock k { s.locks k with waiters := [] }
/-- `lock._waiters.add(priority, (loop.create_future(), weakref.ref(task)))` -/
def pqAdd (s : State) (k : Nat) (p : Rat) (task : Nat) : State :=
  s.setLock k { s.locks k with waiters := (s.locks k).waiters ++ [{ task := task, key := p, fut := .pending }] }
/-- `lock._waiters.remove(entry)` for the entry of `task` -/
def pqRemove (s : State) (k : Nat) (task : Nat) : State :=
  s.setLock k { s.locks k with waiters := removeTask (s.locks k).waiters task }
/-- `lock._waiters.peek()` -/
def pqPeek (s : State) (k : Nat) : Option Waiter := headW (s.locks k).waiters
/-- `lock._waiters.reschedule(key, priority)`: the entry for which `key` holds is re-keyed (there is at
    most one: a task is queued at most once, `Inv.nodup`) -/
def pqReschedule (s : State) (k : Nat) (key : Waiter → Bool) (p : Rat) : State :=
  s.setLock k { s.locks k with waiters := (s.locks k).waiters.map fun w => if key w then { w with key := p } else w }

/-- `fut.done()` of a queued entry -/
def futDone (w : Waiter) : Bool := w.fut.done
/-- `fut.set_result(True)` for the future of entry `w` of lock `k`: the future gets its result and its
    done-callback (the task's wakeup, if the task is still blocked on it) is scheduled -/
def futSetResult (s : State) (k : Nat) (w : Waiter) : State :=
  let s1 := s.setLock k { s.locks k with waiters := setFutOf (s.locks k).waiters w.task .result }
  if (s1.tasks w.task).status = .blocked then s1.enqueue w.task (.woken false) else s1

/-- `task.priority_value` -/
def priorityValue (s : State) (t : Nat) : Rat := (s.tasks t).prio.getD 0
/-- `task._holding_locks` -/
def holdingLocks (s : State) (t : Nat) : List Nat := (s.tasks t).holding
/-- `task._holding_locks.add(lock)` -/
def holdingAdd (s : State) (t k : Nat) : State := s.setTask t { s.tasks t with holding := k :: (s.tasks t).holding }
/-- `task._holding_locks.remove(lock)` -/
def holdingRemove (s : State) (t k : Nat) : State :=
  s.setTask t { s.tasks t with holding := (s.tasks t).holding.erase k }
/-- `task._waiting_on` -/
def waitingOnOf (s : State) (t : Nat) : Option Nat := (s.tasks t).waitingOn
/-- `task._waiting_on = x` -/
def setWaitingOn (s : State) (t : Nat) (x : Option Nat) : State := s.setTask t { s.tasks t with waitingOn := x }

/-- `task_is_runnable(task)` -/
def taskIsRunnable (s : State) (t : Nat) : Bool := (s.tasks t).status.runnable
/-- `hasattr(loop, "task_reschedule")`: only the priority loop has it -/
def loopHasReschedule (s : State) : Bool := s.prioLoop
/-- `loop.task_reschedule(task)` of the priority loop, given the task's effective priority: a regular
    (class-1) entry of the ready queue is re-keyed, anything else is left alone -/
def loopTaskReschedule (s : State) (t : Nat) (p : Rat) : State :=
  if (s.tasks t).rkey.isSome then s.setTask t { s.tasks t with rkey := some p } else s

/-- `min(xs, default=None)` -/
def minOpt (xs : List Rat) : Option Rat := PrioGraph.minList xs

/-- value returned by a translated recursive method when the recursion bound of the model is
    exhausted (Python has no bound; on acyclic wait-for graphs the bound is never reached,
    `C11.eff_fuel_independent`) -/
def fuelOutRat (s : State) (t : Nat) : Rat := priorityValue s t

end Asynkit.Lock
