/-
Kernel: an executable transition-system model of the part of asyncio + asynkit that decides
which tasks are runnable, blocked or current (C09) and how `task_throw` / `task_interrupt`
re-route a Python task (C15).   Core Lean only.

What is transcribed (see notes/C09.md for the line-by-line table):
* asyncio.Future: state, callback list, `add_done_callback`, `remove_done_callback`,
  `set_result/set_exception/cancel` scheduling the callbacks with `call_soon`.
* asyncio.Task: `_fut_waiter`, `_must_cancel`, `done()`, `cancel()`, `__step`, `__wakeup`
  (tasks.py 3.12; the C task has the same observable behaviour).
* the ready queue as a list (`call_soon` = append, `_run_once` pops the head); the priority
  loop with equal priorities has the same behaviour (C10).
* asynkit: `task_from_handle` (as repaired: only step / wake-up callbacks denote a task),
  `queue_find(remove=True)` (last match), `_task_reinsert`, `task_is_blocked`,
  `task_is_runnable`, `runnable_tasks`, `blocked_tasks` (as repaired: `current_task(loop)`),
  `ready_find`, `task_throw` (Python-task branch), `task_interrupt` = throw; reinsert 0; sleep(0).
-/
namespace Asynkit.Kernel

abbrev TaskId := Nat
abbrev FutId := Nat

/-- Exceptions that can be delivered into a task. -/
inductive Exc where
  | cancelled                      -- a plain CancelledError (Task.cancel / cancelled future)
  | intr (id : Nat) (cd : Bool)    -- the instance given to task_throw; cd = derives from CancelledError
  | futExc (f : FutId)             -- the exception stored in future f
  | runtime                        -- RuntimeError made by Task.__step for a bad yield
  deriving DecidableEq, Repr

def Exc.isCancel : Exc → Bool
  | .cancelled => true
  | .intr _ cd => cd
  | _ => false

inductive FutSt where
  | pending | result | exc | cancelled
  deriving DecidableEq, Repr

/-- Entries of a future's callback list. -/
inductive Cb where
  | wake (t : TaskId)      -- Task.__wakeup of task t
  | other (k : Nat)        -- anything else
  deriving DecidableEq, Repr

structure Fut where
  st : FutSt := .pending
  cbs : List Cb := []
  /-- `cancel()` is refused (returns False) although the future is pending: asyncio.gather's outer
      future once all children are done but its own completion is still queued, or any Future
      subclass overriding `cancel`.  The environment may flip this at any time. -/
  noCancel : Bool := false
  deriving DecidableEq, Repr

/-- What a ready-queue handle calls. -/
inductive Handle where
  | step (t : TaskId) (e : Option Exc)   -- Task.__step(exc)
  | wakeup (t : TaskId) (f : FutId)      -- Task.__wakeup(future)
  | cb (k : Nat)                         -- a plain callback
  | otherBound (t : TaskId)              -- a bound method of task t that is neither (task.cancel)
  deriving DecidableEq, Repr

structure Task where
  py : Bool := true
  futWaiter : Option FutId := none
  mustCancel : Bool := false
  done : Bool := true            -- ids never created behave as finished tasks
  deriving DecidableEq, Repr

inductive Ctx where
  | stopped                -- the loop is not running (caller is outside)
  | idle                   -- loop running, no current task (between handles / in a plain callback)
  | inTask (t : TaskId)    -- inside Task.__step of t
  deriving DecidableEq, Repr

structure State where
  tasks : TaskId → Task := fun _ => {}
  nt : Nat := 0
  futs : FutId → Fut := fun _ => {}
  nf : Nat := 0
  ready : List Handle := []
  ctx : Ctx := .stopped
  nexc : Nat := 0                       -- next interrupt id
  log : List (TaskId × Exc) := []       -- ghost: exceptions raised inside task bodies, in order
  thrown : List (TaskId × Nat) := []    -- ghost: accepted task_throw calls (target, id)
  err : Bool := false                   -- an internal error of Task/__wakeup/task_throw happened

def init : State := {}

/-- What the coroutine does at the end of a step. -/
inductive Act where
  | yieldNone              -- bare yield (`sleep(0)`)
  | yieldErr               -- yields something Task.__step rejects
  | yieldFut (f : FutId)   -- yields future f with the blocking flag set
  | finish                 -- returns or raises
  deriving DecidableEq, Repr

inductive Event where
  | create (py : Bool)
  | newFut
  | setResult (f : FutId)
  | setExc (f : FutId)
  | cancelFut (f : FutId)
  | setNoCancel (f : FutId) (b : Bool)  -- the future starts / stops refusing cancel()
  | addCb (f : FutId) (k : Nat)
  | cancelTask (t : TaskId)
  | callSoonOther (t : TaskId)          -- loop.call_soon(task.cancel)
  | callSoonCb (k : Nat)
  | taskThrow (t : TaskId) (cd : Bool)
  | reinsert (t : TaskId) (pos : Nat)
  | begin                               -- the loop pops and starts the head handle
  | endStep (a : Act)
  | pause
  | resume
  deriving DecidableEq, Repr

inductive Out where
  | ok
  | noop           -- the call returned False / raised InvalidStateError to its caller, nothing changed
  | refused        -- task_throw raised RuntimeError
  | valueError     -- task_reinsert raised ValueError
  | notEnabled
  | kernelError
  deriving DecidableEq, Repr

/-! ### small helpers -/

def setTask (s : State) (t : TaskId) (x : Task) : State :=
  { s with tasks := fun i => if i = t then x else s.tasks i }

def setFut (s : State) (f : FutId) (x : Fut) : State :=
  { s with futs := fun i => if i = f then x else s.futs i }

def callSoon (s : State) (h : Handle) : State := { s with ready := s.ready ++ [h] }

/-- default.task_from_handle (repaired): only step / wake-up callbacks denote a task. -/
def taskFromHandle : Handle → Option TaskId
  | .step t _ => some t
  | .wakeup t _ => some t
  | .cb _ => none
  | .otherBound _ => none

def isOf (t : TaskId) (h : Handle) : Bool := taskFromHandle h == some t

def toHandle (f : FutId) : Cb → Handle
  | .wake t => .wakeup t f
  | .other k => .cb k

/-- queue_find(key, remove=True): scans from the end, removes the first (= last) match. -/
def popLast (p : Handle → Bool) : List Handle → Option (Handle × List Handle)
  | [] => none
  | x :: xs =>
    match popLast p xs with
    | some (y, ys) => some (y, x :: ys)
    | none => if p x then some (x, xs) else none

/-- Future.__schedule_callbacks after a state change of a pending future. -/
def completeFut (s : State) (f : FutId) (st : FutSt) : State :=
  if (s.futs f).st = .pending then
    { s with ready := s.ready ++ (s.futs f).cbs.map (toHandle f),
             futs := fun i => if i = f then { (s.futs f) with st := st, cbs := [] } else s.futs i }
  else s

/-- Task.cancel() -/
def cancelTask (s : State) (t : TaskId) : State :=
  let T := s.tasks t
  if T.done then s else
  match T.futWaiter with
  | some f =>
    -- `if self._fut_waiter.cancel(): return True`  (a pending future may refuse)
    if (s.futs f).st = .pending ∧ (s.futs f).noCancel = false then completeFut s f .cancelled
    else setTask s t { T with mustCancel := true }
  | none => setTask s t { T with mustCancel := true }

/-- Task.__step(exc) up to the point where the coroutine is resumed. -/
def runStep (s : State) (t : TaskId) (e : Option Exc) : State × Out :=
  let T := s.tasks t
  if T.done then ({ s with err := true }, .kernelError) else
  let e' : Option Exc :=
    if T.mustCancel then
      match e with
      | some x => if x.isCancel then some x else some .cancelled
      | none => some .cancelled
    else e
  let s1 := setTask s t { T with mustCancel := false, futWaiter := none }
  ({ s1 with ctx := .inTask t,
             log := match e' with
                    | some x => s.log ++ [(t, x)]
                    | none => s.log }, .ok)

/-- `fut_waiter and not fut_waiter.done()` : the future the task is blocked on, if any -/
def blockedOn (s : State) (T : Task) : Option FutId :=
  match T.futWaiter with
  | some f => if (s.futs f).st = .pending then some f else none
  | none => none

/-- `fut_waiter and fut_waiter.cancelled()` -/
def fwCancelled (s : State) (T : Task) : Bool :=
  match T.futWaiter with
  | some f => (s.futs f).st = .cancelled
  | none => false

/-- the common tail of task_throw: `task._fut_waiter = None; call_soon(step, exception)` -/
def throwFin (s : State) (t : TaskId) (id : Nat) (cd : Bool) : State :=
  { setTask s t { (s.tasks t) with futWaiter := none } with
    ready := s.ready ++ [.step t (some (.intr id cd))],
    thrown := s.thrown ++ [(t, id)] }

/-- interrupt.task_throw, Python-task branch. -/
def taskThrow (s0 : State) (t : TaskId) (cd : Bool) : State × Out :=
  let T := s0.tasks t
  let id := s0.nexc
  let s := { s0 with nexc := s0.nexc + 1 }
  if T.done then (s, .refused) else
  -- a cancellation request can be pending on a blocked task too (its future refused cancel())
  if T.mustCancel then (s, .refused) else
  match blockedOn s0 T with
  | some f =>
    -- fut_waiter.remove_done_callback(task.__wakeup)
    (throwFin (setFut s f { (s.futs f) with cbs := (s.futs f).cbs.filter (· != .wake t) }) t id cd, .ok)
  | none =>
    if T.mustCancel || fwCancelled s0 T then (s, .refused) else
    match popLast (isOf t) s.ready with
    | none =>
      -- `assert task is asyncio.current_task()` then RuntimeError("cannot interrupt self")
      if s.ctx = .inTask t then (s, .refused) else ({ s with err := true }, .kernelError)
    | some (_, r) => (throwFin { s with ready := r } t id cd, .ok)

/-- scheduling._task_reinsert -/
def reinsert (s : State) (t : TaskId) (pos : Nat) : State × Out :=
  match popLast (isOf t) s.ready with
  | none => (s, .valueError)
  | some (h, r) => ({ s with ready := r.insertIdx (min pos r.length) h }, .ok)

def endStep (s : State) (t : TaskId) (a : Act) : State :=
  let T := s.tasks t
  match a with
  | .yieldNone => { callSoon s (.step t none) with ctx := .idle }
  | .yieldErr => { callSoon s (.step t (some .runtime)) with ctx := .idle }
  | .finish => { setTask s t { T with done := true } with ctx := .idle }
  | .yieldFut f =>
    if (s.futs f).st = .pending then
      -- result.add_done_callback(self.__wakeup); self._fut_waiter = result
      let s1 := setFut s f { (s.futs f) with cbs := (s.futs f).cbs ++ [.wake t] }
      if T.mustCancel = true ∧ (s.futs f).noCancel = false then
        -- if self._fut_waiter.cancel(): self._must_cancel = False   (refused: flag stays)
        let s2 := setTask s1 t { T with futWaiter := some f, mustCancel := false }
        { completeFut s2 f .cancelled with ctx := .idle }
      else
        { setTask s1 t { T with futWaiter := some f } with ctx := .idle }
    else
      -- add_done_callback on a done future: call_soon(wakeup); cancel() returns False
      let s1 := callSoon s (.wakeup t f)
      { setTask s1 t { T with futWaiter := some f } with ctx := .idle }

def beginHandle (s : State) : State × Out :=
  match s.ctx, s.ready with
  | .idle, h :: rest =>
    let s := { s with ready := rest }
    match h with
    | .cb _ => (s, .ok)
    | .otherBound t => (cancelTask s t, .ok)
    | .step t e => runStep s t e
    | .wakeup t f =>
      match (s.futs f).st with
      | .pending => ({ s with err := true }, .kernelError)   -- future.result() raises
      | .result => runStep s t none
      | .exc => runStep s t (some (.futExc f))
      | .cancelled => runStep s t (some .cancelled)
  | _, _ => (s, .notEnabled)

def step (s : State) : Event → State × Out
  | .create py =>
    let s1 := setTask s s.nt { py := py, done := false }
    ({ s1 with nt := s.nt + 1, ready := s.ready ++ [.step s.nt none] }, .ok)
  | .newFut => ({ s with nf := s.nf + 1 }, .ok)
  | .setResult f => if (s.futs f).st = .pending then (completeFut s f .result, .ok) else (s, .noop)
  | .setExc f => if (s.futs f).st = .pending then (completeFut s f .exc, .ok) else (s, .noop)
  | .cancelFut f =>
    if (s.futs f).st = .pending ∧ (s.futs f).noCancel = false then (completeFut s f .cancelled, .ok)
    else (s, .noop)
  | .setNoCancel f b => (setFut s f { (s.futs f) with noCancel := b }, .ok)
  | .addCb f k =>
    if (s.futs f).st = .pending then
      (setFut s f { (s.futs f) with cbs := (s.futs f).cbs ++ [.other k] }, .ok)
    else (callSoon s (.cb k), .ok)
  | .cancelTask t => if (s.tasks t).done then (s, .noop) else (cancelTask s t, .ok)
  | .callSoonOther t => (callSoon s (.otherBound t), .ok)
  | .callSoonCb k => (callSoon s (.cb k), .ok)
  | .taskThrow t cd => taskThrow s t cd
  | .reinsert t pos => reinsert s t pos
  | .begin => beginHandle s
  | .endStep a =>
    match s.ctx with
    | .inTask t => (endStep s t a, .ok)
    | _ => (s, .notEnabled)
  | .pause => if s.ctx = .idle then ({ s with ctx := .stopped }, .ok) else (s, .notEnabled)
  | .resume => if s.ctx = .stopped then ({ s with ctx := .idle }, .ok) else (s, .notEnabled)

def run (s : State) : List Event → State
  | [] => s
  | e :: es => run (step s e).1 es

/-- States reachable from the empty loop by any event sequence. -/
def Reachable (s : State) : Prop := ∃ evs, s = run init evs

/-! ### the asynkit API as functions of the state -/

/-- scheduling.task_is_blocked -/
def isBlocked (s : State) (t : TaskId) : Bool :=
  match (s.tasks t).futWaiter with
  | none => false
  | some f => (s.futs f).st = .pending

/-- scheduling.task_is_runnable -/
def isRunnable (s : State) (t : TaskId) : Bool := !(isBlocked s t || (s.tasks t).done)

/-- extensions.ready_find(task) is not None -/
def readyFind (s : State) (t : TaskId) : Bool := s.ready.any (isOf t)

def readyTasks (s : State) : List TaskId := s.ready.filterMap taskFromHandle

def current (s : State) : Option TaskId :=
  match s.ctx with
  | .inTask t => some t
  | _ => none

/-- asyncio.all_tasks(loop) -/
def allTasks (s : State) : List TaskId := (List.range s.nt).filter fun t => !(s.tasks t).done

inductive ApiErr where
  | noRunningLoop      -- RuntimeError from get_running_loop()
  | assertion          -- the function's own assert failed
  deriving DecidableEq, Repr

/-- `loop or asyncio.get_running_loop()` -/
def loopOk (s : State) (explicitLoop : Bool) : Bool := explicitLoop || s.ctx != .stopped

/-- scheduling.runnable_tasks(loop) -/
def runnableTasks (s : State) (explicitLoop : Bool) : Except ApiErr (List TaskId) :=
  if !loopOk s explicitLoop then .error .noRunningLoop else
  let r := (readyTasks s).eraseDups
  if r.all (fun t => !isBlocked s t) then .ok r else .error .assertion

/-- scheduling.blocked_tasks(loop) (repaired: `asyncio.current_task(loop)`) -/
def blockedTasks (s : State) (explicitLoop : Bool) : Except ApiErr (List TaskId) :=
  if !loopOk s explicitLoop then .error .noRunningLoop else
  match runnableTasks s true with
  | .error e => .error e
  | .ok r =>
    let res := (allTasks s).filter fun t => !r.contains t
    let res := res.filter fun t => current s != some t
    if res.all (isBlocked s) then .ok res else .error .assertion

end Asynkit.Kernel
