/-
asynkit's await-protocol wrappers (src/asynkit/coroutine.py, src/asynkit/monitor.py), transcribed
line by line as transformers of awaitable objects.

Vocabulary
* `Obj ι`  — anything that is driven with `send / throw / close` (a coroutine object, a generator
  object, a `coroutine_wrapper`): a state type, the three methods, and a read-only `view` of the
  innermost state (used to state "the same values and exceptions arrive inside": the innermost
  object can be a logging one, the view is its log).
* `envObj k B` — CPython's object envelope (genobject.c) around a function body `B : Body`;
  `k = .coro` for `async def`, `k = .gen` for generator functions (they differ only in what a
  finished object answers).  It is `Proto.Coro` with the body's last state kept after
  termination (needed for `view`); `envObj_send_erase` … tie it to `Proto.Coro`.
* `nativeAwaitB I` — PEP-380 delegation to `I` (= the body of `async def ref(x): return await x`);
  `nativeAwaitO I` the coroutine object made from it.  This is the reference of C02.
* every asynkit wrapper is a `Body` built over an inner `Obj` (`…B`) and the object made from it
  (`…O`).  `Body → Body` versions for coroutine bodies are at the end (`coroIter b` …).

Contexts (`context.run`) are not modelled here (property C04); `context=None` paths only, where
`CoroStart._resume(method, *args)` (the single place every resumption goes through since /repo
42736ef) is just `method(*args)`.  The handshake-flag behaviour is that of /repo 59f4f3e.
-/
import Asynkit.Model.Proto

namespace Asynkit.Proto

/-- one call made from outside on an awaitable object -/
inductive Drive where
  | send (v : Val)
  | throw (e : Exc)
  | close
deriving Repr, DecidableEq, Inhabited

/-- further fixed RuntimeError phrases / exception identities used by asynkit itself -/
def rtIgnoredExc : Nat := 5          -- CoroStart.throw: "coroutine ignored <E>"
def rtSyncError : Nat := 6           -- SynchronousError (a RuntimeError subclass)
def rtMonitorReentered : Nat := 7    -- "Monitor cannot be re-entered"
def rtRaisedOOB : Nat := 8           -- "coroutine raised OOBData"
def excAssertion : Exc := .other 9001      -- AssertionError  (`assert False, "unreachable"`)
def excInvalidState : Exc := .other 9002   -- asyncio.InvalidStateError

structure Obj (ι : Type) where
  σ : Type
  init : σ
  send : σ → Val → σ × Out
  throw : σ → Exc → σ × Out
  close : σ → σ × Out
  view : σ → ι

namespace Obj
variable {ι : Type}

def step (I : Obj ι) (s : I.σ) : Drive → I.σ × Out
  | .send v => I.send s v
  | .throw e => I.throw s e
  | .close => I.close s

/-- Outputs (and the innermost view after each call) of a drive sequence; the comparison ends
    at the first call that does not yield (termination of the object, or an error such as
    "ignored GeneratorExit"). -/
def run (I : Obj ι) : I.σ → List Drive → List (Out × ι)
  | _, [] => []
  | s, d :: ds =>
    match I.step s d with
    | (s', .yield y) => (.yield y, I.view s') :: run I s' ds
    | (s', o) => [(o, I.view s')]

/-- forget the view -/
def outs (I : Obj ι) (s : I.σ) (ds : List Drive) : List Out := (I.run s ds).map (·.1)

end Obj

/-- At the object level a raised `StopIteration(v)` *is* `return v` (that is the protocol);
    every caller of `send`/`throw` below (`except StopIteration as exc: return exc.value`, and
    CPython's SEND/`_gen_throw`) sees it that way. -/
def normStop : Out → Out
  | .raise (.stopIter v) => .ret v
  | o => o

/-! ## CPython's object envelope, keeping the body's last state -/

inductive EState (σ : Type) where
  | created (s : σ)
  | susp (s : σ)
  | done (s : σ)
deriving Repr

def EState.body {σ : Type} : EState σ → σ
  | .created s => s
  | .susp s => s
  | .done s => s

def EState.erase {σ : Type} : EState σ → CState σ
  | .created s => .created s
  | .susp s => .susp s
  | .done _ => .done

inductive Kind where
  | coro
  | gen
deriving Repr, DecidableEq

/-- classify one resumption of the body (PEP 479 included) — `Proto.Coro.after`. -/
def envAfter {σ : Type} (r : σ × Out) : EState σ × Out :=
  match r.2 with
  | .yield y => (.susp r.1, .yield y)
  | .ret v => (.done r.1, .ret v)
  | .raise (.stopIter _) => (.done r.1, .raise (.runtime rtRaisedStopIter))
  | .raise e => (.done r.1, .raise e)

/-- what `close()` makes of the outcome of throwing GeneratorExit (gen_close) -/
def envClosed {α : Type} (r : α × Out) : α × Out :=
  match r with
  | (st', .yield _) => (st', .raise (.runtime rtIgnoredGenExit))
  | (st', .ret _) => (st', .ret 0)
  | (st', .raise .genExit) => (st', .ret 0)
  | (st', .raise e) => (st', .raise e)

def envObj {ι : Type} (k : Kind) (B : Body) (view : B.σ → ι) : Obj ι where
  σ := EState B.σ
  init := .created B.init
  send st v :=
    match st with
    | .created s => if v ≠ 0 then (.created s, .raise .typeErr) else envAfter (B.resume s (.send v))
    | .susp s => envAfter (B.resume s (.send v))
    | .done s => (.done s, match k with
                           | .coro => .raise (.runtime rtCannotReuse)
                           | .gen => .ret 0)          -- bare StopIteration
  throw st e :=
    match st with
    | .created s => (.done s, .raise e)
    | .susp s => envAfter (B.resume s (.throw e))
    | .done s => (.done s, match k with
                           | .coro => .raise (.runtime rtCannotReuse)
                           | .gen => .raise e)
  close st :=
    match st with
    | .created s => (.done s, .ret 0)
    | .done s => (.done s, .ret 0)
    | .susp s => envClosed (envAfter (B.resume s (.throw .genExit)))
  view st := view st.body

/-- a coroutine object (`async def` called) -/
abbrev coroObj {ι : Type} (B : Body) (view : B.σ → ι) : Obj ι := envObj .coro B view
/-- a generator object -/
abbrev genObj {ι : Type} (B : Body) (view : B.σ → ι) : Obj ι := envObj .gen B view

/-! ## The reference: PEP-380 delegation -/

/-- body of `async def ref(x): return await x`, `x` any object with send/throw/close. -/
def nativeAwaitB {ι : Type} (I : Obj ι) : Body where
  σ := I.σ
  init := I.init
  resume s r :=
    match r with
    | .send v => ((I.send s v).1, normStop (I.send s v).2)
    | .throw .genExit =>
      match I.close s with
      | (s', .raise e) => (s', .raise e)               -- close() raised: that is raised at the await
      | (s', _) => (s', .raise .genExit)               -- close() returned (its value is ignored)
    | .throw e => ((I.throw s e).1, normStop (I.throw s e).2)

def nativeAwaitO {ι : Type} (I : Obj ι) : Obj ι := coroObj (nativeAwaitB I) I.view

/-! ## coro_iter  (coroutine.py:485-511) -/

inductive Pc where
  | start
  | loop
deriving Repr, DecidableEq

/-- the three arms of the relay loop share this: yield → `yield out_value`; StopIteration →
    `return exc.value`; anything else propagates. -/
def relay {σ : Type} (r : σ × Out) : (Pc × σ) × Out := ((.loop, r.1), normStop r.2)

/-- `except GeneratorExit: coro.close(); raise` -/
def relayClose {σ : Type} (r : σ × Out) : (Pc × σ) × Out :=
  match r with
  | (s', .raise e) => ((.loop, s'), .raise e)         -- close() itself raised: that propagates
  | (s', _) => ((.loop, s'), .raise .genExit)         -- close() returned; `raise`

def coroIterB {ι : Type} (I : Obj ι) : Body where
  σ := Pc × I.σ
  init := (.start, I.init)
  resume st r :=
    match st.1, r with
    | .start, .send _ => relay (I.send st.2 0)        -- out_value = coro.send(None)
    | .start, .throw e => (st, .raise e)              -- not reachable through the envelope
    | .loop, .send v => relay (I.send st.2 v)         -- else: out_value = coro.send(in_value)
    | .loop, .throw .genExit => relayClose (I.close st.2)
    | .loop, .throw e => relay (I.throw st.2 e)       -- out_value = coro.throw(exc)

def coroIterO {ι : Type} (I : Obj ι) : Obj ι := genObj (coroIterB I) (fun st => I.view st.2)

/-! ## CoroStart  (coroutine.py:165-381) -/

/-- `start_result` when not None: `(out_value, None)`, `(None, StopIteration(v))`, `(None, exc)` -/
inductive SR where
  | pending (y : Y)
  | returned (v : Val)
  | raised (e : Exc)
deriving Repr, DecidableEq

structure CS (σ : Type) where
  coro : σ
  sr : Option SR

/-- classification used by `_start` and `athrow`:  value → `(value, None)`; exception → `(None, exc)` -/
def SR.ofOut : Out → SR
  | .yield y => .pending y
  | .ret v => .returned v
  | .raise (.stopIter v) => .returned v
  | .raise e => .raised e

/-- `CoroStart(coro)` : `__init__` + `_start` -/
def CS.new {ι : Type} (I : Obj ι) : CS I.σ :=
  { coro := (I.send I.init 0).1, sr := some (SR.ofOut (I.send I.init 0).2) }

/-- `CoroStart.__await__` as a generator-function body; its state is the generator's program
    counter plus the (shared, mutable) CoroStart object. -/
def coroStartAwaitB {ι : Type} (I : Obj ι) (cs0 : CS I.σ) : Body where
  σ := Pc × CS I.σ
  init := (.start, cs0)
  resume st r :=
    let cs := st.2
    match st.1, r with
    | .start, .send _ =>
      match cs.sr with
      | none =>
        -- self.coro.send(None); assert False, "unreachable"
        match I.send cs.coro 0 with
        | (s', .yield _) => ((.start, { cs with coro := s' }), .raise excAssertion)
        | (s', .ret v) => ((.start, { cs with coro := s' }), .raise (.stopIter v))
        | (s', .raise e) => ((.start, { cs with coro := s' }), .raise e)
      | some (.returned v) => ((.start, { cs with sr := none }), .ret v)
      | some (.raised e) => ((.start, { cs with sr := none }), .raise e)
      | some (.pending y) => ((.loop, { cs with sr := none }), .yield y)
    | .start, .throw e => (st, .raise e)              -- not reachable through the envelope
    | .loop, .send v =>
      let r := relay (I.send cs.coro v)
      ((r.1.1, { cs with coro := r.1.2 }), r.2)
    | .loop, .throw .genExit =>
      let r := relayClose (I.close cs.coro)
      ((r.1.1, { cs with coro := r.1.2 }), r.2)
    | .loop, .throw e =>
      let r := relay (I.throw cs.coro e)
      ((r.1.1, { cs with coro := r.1.2 }), r.2)

def csView {ι : Type} (I : Obj ι) (st : Pc × CS I.σ) : ι := I.view st.2.coro

/-- the iterator `cs.__await__()` -/
def coroStartAwaitO {ι : Type} (I : Obj ι) (cs0 : CS I.σ) : Obj ι :=
  genObj (coroStartAwaitB I cs0) (csView I)

/-- `CoroStart(x).__await__()` -/
def coroStartO {ι : Type} (I : Obj ι) : Obj ι := coroStartAwaitO I (CS.new I)

/-- `cs.as_coroutine()` : `return await self` -/
def asCoroutineO {ι : Type} (I : Obj ι) : Obj ι := nativeAwaitO (coroStartO I)

/-- `coro_await(x)` : `cs = CoroStart(coro); return await cs` — the CoroStart is created by the
    coroutine's first step, then it delegates to `cs.__await__()`. -/
def coroAwaitB {ι : Type} (I : Obj ι) : Body where
  σ := Option (EState (Pc × CS I.σ))
  init := none
  resume st r :=
    match st with
    | none =>
      match r with
      | .send _ =>
        let r := (nativeAwaitB (coroStartO I)).resume (coroStartO I).init (.send 0)
        (some r.1, r.2)
      | .throw e => (none, .raise e)                  -- not reachable through the envelope
    | some it =>
      let r := (nativeAwaitB (coroStartO I)).resume it r
      (some r.1, r.2)

def coroAwaitO {ι : Type} (I : Obj ι) : Obj ι :=
  coroObj (coroAwaitB I) (fun st => match st with
                                    | none => I.view I.init
                                    | some it => (coroStartO I).view it)

/-- `cs.athrow(e)` : throw into the started coroutine, store the outcome, `return await self`. -/
def coroStartAthrowB {ι : Type} (I : Obj ι) (cs : CS I.σ) (e : Exc) : Body where
  σ := CS I.σ ⊕ EState (Pc × CS I.σ)
  init := .inl cs
  resume st r :=
    match st with
    | .inl cs =>
      match r with
      | .send _ =>
        let cs' : CS I.σ := { coro := (I.throw cs.coro e).1, sr := some (SR.ofOut (I.throw cs.coro e).2) }
        let r := (nativeAwaitB (coroStartAwaitO I cs')).resume (coroStartAwaitO I cs').init (.send 0)
        (.inr r.1, r.2)
      | .throw e' => (.inl cs, .raise e')             -- not reachable through the envelope
    | .inr it =>
      let r := (nativeAwaitB (coroStartAwaitO I cs)).resume it r
      (.inr r.1, r.2)

/- NOTE: in the `.inr` arm the generator's behaviour does not depend on its initial `cs`
   (only `init` mentions it), so any `cs` may be used to name the object. -/

def athrowView {ι : Type} (I : Obj ι) : CS I.σ ⊕ EState (Pc × CS I.σ) → ι
  | .inl cs => I.view cs.coro
  | .inr it => I.view it.body.2.coro

def coroStartAthrowO {ι : Type} (I : Obj ι) (cs : CS I.σ) (e : Exc) : Obj ι :=
  coroObj (coroStartAthrowB I cs e) (athrowView I)

/-- `cs.done()` -/
def CS.done {σ : Type} (cs : CS σ) : Bool :=
  match cs.sr with
  | some (.returned _) => true
  | some (.raised _) => true
  | _ => false

/-- `cs.result()` -/
def CS.result {σ : Type} (cs : CS σ) : Out :=
  match cs.sr with
  | some (.returned v) => .ret v
  | some (.raised e) => .raise e
  | _ => .raise excInvalidState

/-- `cs.exception()` (`ret 0` = returns None; `ret 1` stands for "returns the exception object",
    whose identity is `cs.sr`) -/
def CS.exception {σ : Type} (cs : CS σ) : Out :=
  match cs.sr with
  | some (.returned _) => .ret 0
  | some (.raised _) => .ret 1
  | _ => .raise excInvalidState

/-- `cs.throw(e)` (tries = 1): returns on StopIteration, propagates other exceptions, and raises
    RuntimeError("coroutine ignored E") when the coroutine yields instead of exiting. -/
def CS.throwSync {ι : Type} (I : Obj ι) (cs : CS I.σ) (e : Exc) : CS I.σ × Out :=
  match I.throw cs.coro e with
  | (s', .yield _) => ({ cs with coro := s' }, .raise (.runtime rtIgnoredExc))
  | (s', o) => ({ cs with coro := s' }, normStop o)

/-- `cs.close()` -/
def CS.closeSync {ι : Type} (I : Obj ι) (cs : CS I.σ) : CS I.σ × Out :=
  ({ coro := (I.close cs.coro).1, sr := none }, (I.close cs.coro).2)

/-- `cs.aclose()`:
    ```
    if self.start_result is None: return
    if self.done(): self.start_result = None; return
    try: await self.athrow(GeneratorExit())
    except GeneratorExit: pass
    ``` -/
def coroStartAcloseB {ι : Type} (I : Obj ι) (cs : CS I.σ) : Body where
  σ := CS I.σ ⊕ EState (CS I.σ ⊕ EState (Pc × CS I.σ))
  init := .inl cs
  resume st r :=
    let swallow (o : Out) : Out := match o with
      | .raise .genExit => .ret 0
      | .ret _ => .ret 0
      | o => o
    match st with
    | .inl cs =>
      match r with
      | .send _ =>
        match cs.sr with
        | none => (.inl cs, .ret 0)
        | some (.returned _) => (.inl { cs with sr := none }, .ret 0)
        | some (.raised _) => (.inl { cs with sr := none }, .ret 0)
        | some (.pending _) =>
          let A := coroStartAthrowO I cs .genExit
          let r := (nativeAwaitB A).resume A.init (.send 0)
          (.inr r.1, swallow r.2)
      | .throw e' => (.inl cs, .raise e')             -- not reachable through the envelope
    | .inr it =>
      let A := coroStartAthrowO I cs .genExit
      let r := (nativeAwaitB A).resume it r
      (.inr r.1, swallow r.2)

def coroStartAcloseO {ι : Type} (I : Obj ι) (cs : CS I.σ) : Obj ι :=
  coroObj (coroStartAcloseB I cs) (fun st => match st with
    | .inl cs => I.view cs.coro
    | .inr it => athrowView I it.body)

/-! ## awaitmethod / awaitmethod_iter  (coroutine.py:514-542) -/

/-- `func(*args).__await__()` : the `coroutine_wrapper` forwards send/throw/close to the
    coroutine object, so as an object it *is* the coroutine. -/
def awaitMethodO {ι : Type} (I : Obj ι) : Obj ι := I

/-- `coro_iter(func(*args))` -/
def awaitMethodIterO {ι : Type} (I : Obj ι) : Obj ι := coroIterO I

/-! ## Monitor._asend / aawait / BoundMonitor  (monitor.py:64-123, 235-236), no OOB traffic -/

structure MonSt (σ : Type) where
  pc : Pc
  mon : Int          -- Monitor.state
  coro : σ

/-- `Monitor._asend(coro, coro.send, (data,))` as a generator-function body.  `mon` is the
    monitor's `state` attribute; only `oob()` (not used here) sets it to -1. -/
def monitorAsendB {ι : Type} (I : Obj ι) (data : Val) (mon0 : Int) : Body where
  σ := MonSt I.σ
  init := { pc := .start, mon := mon0, coro := I.init }
  resume st r :=
    -- every exit path runs `finally: self.state = 0`
    let fin (r : I.σ × Out) : MonSt I.σ × Out :=
      match normStop r.2 with
      | .yield y => ({ pc := .loop, mon := st.mon, coro := r.1 }, .yield y)
      | o => ({ pc := .loop, mon := 0, coro := r.1 }, o)
    match st.pc, r with
    | .start, .send _ =>
      if st.mon ≠ 0 then (st, .raise (.runtime rtMonitorReentered))
      else
        match I.send st.coro data with
        | (s', .raise (.oobData _)) =>
          ({ pc := .loop, mon := 0, coro := s' }, .raise (.runtime rtRaisedOOB))
        | (s', o) =>
          match normStop o with
          | .yield y => ({ pc := .loop, mon := 1, coro := s' }, .yield y)
          | o' => ({ pc := .loop, mon := 0, coro := s' }, o')
    | .start, .throw e => (st, .raise e)              -- not reachable through the envelope
    | .loop, .send v => fin (I.send st.coro v)
    | .loop, .throw .genExit =>
      match I.close st.coro with
      | (s', .raise e) => ({ pc := .loop, mon := 0, coro := s' }, .raise e)
      | (s', _) => ({ pc := .loop, mon := 0, coro := s' }, .raise .genExit)
    | .loop, .throw e => fin (I.throw st.coro e)

def monitorAsendO {ι : Type} (I : Obj ι) (data : Val) (mon0 : Int) : Obj ι :=
  genObj (monitorAsendB I data mon0) (fun st => I.view st.coro)

/-- `Monitor().aawait(x)` : `return await self._asend(coro, coro.send, (data,))` -/
def monitorAawaitO {ι : Type} (I : Obj ι) : Obj ι := nativeAwaitO (monitorAsendO I 0 0)

/-- `BoundMonitor(m, x).__await__()` = `m.aawait(x, None).__await__()` (a coroutine_wrapper) -/
def boundMonitorO {ι : Type} (I : Obj ι) : Obj ι := awaitMethodO (monitorAawaitO I)

/-! ## await_sync / aiter_sync  (coroutine.py:545-603) -/

structure SyncResult (σ : Type) where
  out : Out                 -- `ret v` | `raise e`
  cause : Option Out        -- `__cause__` of a SynchronousError: the outcome of the abort
  coro : σ                  -- the coroutine object afterwards

def excSyncError : Exc := .runtime rtSyncError

/-- `await_sync(coro)` -/
def awaitSync {ι : Type} (I : Obj ι) : SyncResult I.σ :=
  let start := CS.new I                                  -- start = CoroStart(coro)
  if start.done then                                     -- if start.done(): return start.result()
    { out := start.result, cause := none, coro := start.coro }
  else
    let t := CS.throwSync I start .syncAbort             -- start.throw(SynchronousAbort())
    let c := CS.closeSync I t.1                          -- finally: start.close()
    match c.2 with
    | .raise e =>                                        -- an exception in `finally` wins
      { out := .raise e, cause := none, coro := c.1.coro }
    | _ =>
      match t.2 with
      | .raise e => { out := .raise excSyncError, cause := some (.raise e), coro := c.1.coro }
      | _ => { out := .raise excSyncError, cause := none, coro := c.1.coro }   -- "caught BaseException"

/-- An async iterator, abstractly: each `__anext__()` is a fresh body run from the iterator's
    current state; `upd` reads the iterator's next state off the finished body. -/
structure AIter where
  τ : Type
  init : τ
  anext : τ → Body
  upd : (t : τ) → (anext t).σ → τ

inductive IterEnd where
  | stop                    -- StopAsyncIteration → the generator returns
  | error (e : Exc) (cause : Option Out)
  | more                    -- fuel exhausted (the caller stopped calling next())
deriving Repr, DecidableEq

/-- final body state held inside a finished/suspended coroutine object -/
def bodyOf {σ : Type} : EState σ → σ := EState.body

/-- `aiter_sync(ai)` consumed by `n` calls of `next()`: items produced and how it ended.
    `helper()` is `return await ai.__anext__()`. -/
def aiterSync (A : AIter) : Nat → A.τ → List Val × IterEnd
  | 0, _ => ([], .more)
  | n + 1, t =>
    let helper := nativeAwaitO (coroObj (A.anext t) id)
    let r := awaitSync helper
    match r.out with
    | .ret v =>
      let rest := aiterSync A n (A.upd t (bodyOf r.coro).body)
      (v :: rest.1, rest.2)
    | .raise .stopAsync => ([], .stop)
    | .raise e => ([], .error e r.cause)
    | .yield _ => ([], .error excAssertion none)        -- impossible: awaitSync never yields

/-- `async for x in ai` run natively when nothing suspends (reference for aiter_sync). -/
def asyncFor (A : AIter) : Nat → A.τ → List Val × IterEnd
  | 0, _ => ([], .more)
  | n + 1, t =>
    match (A.anext t).resume (A.anext t).init (.send 0) with
    | (s', .ret v) =>
      let rest := asyncFor A n (A.upd t s')
      (v :: rest.1, rest.2)
    | (_, .raise .stopAsync) => ([], .stop)
    | (_, .raise (.stopIter _)) => ([], .error (.runtime rtRaisedStopIter) none)
    | (_, .raise e) => ([], .error e none)
    | (_, .yield _) => ([], .error excSyncError none)   -- a suspension: outside aiterSync_eq


/-! ## Logging the calls that reach the innermost object -/

/-- `I` with every call made on it recorded; the view is the record.  Instantiating a theorem
    about all `Obj` with `logged I` gives "the same values and exceptions arrive inside". -/
def logged {ι : Type} (I : Obj ι) : Obj (List Drive) where
  σ := I.σ × List Drive
  init := (I.init, [])
  send st v := (((I.send st.1 v).1, st.2 ++ [.send v]), (I.send st.1 v).2)
  throw st e := (((I.throw st.1 e).1, st.2 ++ [.throw e]), (I.throw st.1 e).2)
  close st := (((I.close st.1).1, st.2 ++ [.close]), (I.close st.1).2)
  view st := st.2

/-! ## The asyncio Future handshake flag (`_asyncio_future_blocking`)

MODELLED, NOT VERIFIED: `Future.__await__` sets the flag of a pending future immediately before
yielding it; a Task clears it when it receives the future; a future whose flag is still set cannot
be awaited by anybody else ("await wasn't used with future").  The relay loops never touch the
flag.  CoroStart *holds* a yielded future between `_start` and the first `yield` of `__await__`;
as repaired (fix proposed under C01: `_start` clears the flag on capture, `__await__` sets it
again before passing the future on) its effects on the flag are the functions below. -/

abbrev Flags := Nat → Bool

def Flags.set (f : Flags) (k : Nat) (b : Bool) : Flags := fun i => if i = k then b else f i

/-- effect of the awaited coroutine's own step: `Future.__await__` sets the flag, then yields -/
def yieldFlag (o : Out) (f : Flags) : Flags :=
  match o with
  | .yield (.fut k) => f.set k true
  | _ => f

/-- `CoroStart._start` (repaired): a captured future's flag is cleared, as a Task would -/
def startFlag (o : Out) (f : Flags) : Flags :=
  match o with
  | .yield (.fut k) => f.set k false
  | _ => f

/-- `CoroStart.__await__` (repaired): the held future is passed on with its flag set, whatever
    happened to the flag meanwhile -/
def reyieldFlag (sr : Option SR) (f : Flags) : Flags :=
  match sr with
  | some (.pending (.fut k)) => f.set k true
  | _ => f

/-- the flags after `await_sync(I)` -/
def awaitSyncFlags {ι : Type} (I : Obj ι) (f : Flags) : Flags :=
  let r := I.send I.init 0
  let f1 := startFlag r.2 (yieldFlag r.2 f)
  match r.2 with
  | .yield _ =>
    let t := I.throw r.1 .syncAbort
    -- `CoroStart.throw`: what the coroutine yields instead of exiting goes nowhere; a Future's
    -- flag is cleared as in `_start` (fixes/C05-cleanup-future-flag.patch)
    startFlag t.2 (yieldFlag t.2 f1)     -- (a future awaited while *closing* lies outside C05's domain)
  | _ => f1

/-! ## `Body → Body` forms for coroutine bodies -/

/-- the coroutine object of body `b`, viewing its whole state -/
abbrev ofBody (b : Body) : Obj b.σ := coroObj b id

def coroIter (b : Body) : Body := coroIterB (ofBody b)
def coroStartAwait (b : Body) : Body := coroStartAwaitB (ofBody b) (CS.new (ofBody b))
def coroAwait (b : Body) : Body := coroAwaitB (ofBody b)
def monitorAsend (b : Body) : Body := monitorAsendB (ofBody b) 0 0
def nativeAwait' (b : Body) : Body := nativeAwaitB (ofBody b)

end Asynkit.Proto
