/-
Kernel interface for the generated translation of `task_timeout` (`Asynkit/Gen/Timeout.lean`, regenerated from
/repo/src by translator/timeout2lean.py): what the calls made by that code *mean* on the state of
`Model/Timeout.lean`.  Stated once, here; everything else in Gen/Timeout.lean is the Python control flow.

A call of `task_timeout(d)` is one *level* `id` (= the identity of its `my_interrupt`); the generator's frame
is the level record: `enterFrame` when the generator starts, `leaveFrame` when it returns or raises.  The
closure variables shared by the generator, `trigger_timeout` and `interruptor` are fields of that record:
`is_active` ↦ `active` (read/written *by id*, wherever the record is — the interruptor outlives the block),
`timeout_handle` ↦ `timer`, the interruptor task ↦ `ist`.

Trusted (not translated): `loop.call_later` arms a timer whose callback the loop runs unless the handle was
cancelled (`timerFired` = the loop ran it); `loop.create_task(coro)` schedules a task; `await
task_interrupt(task, exc)` either raises RuntimeError at once (refused — property C15 says when) or makes the
target raise `exc` at its current await when it next runs and suspends the caller (`throwAccepted`);
`await asyncio.sleep(0)` suspends; `call_exception_handler` records the report (`failed`);
`contextlib.asynccontextmanager`.  Core Lean only.
-/
import Asynkit.Model.Timeout

namespace Asynkit.Timeout

/-- `isinstance(x, TimeoutInterrupt)` -/
def Exc.isIntr : Exc → Bool | .intr _ => true | _ => false

/-- exceptions inside the interruptor task -/
inductive IExn | runtime
deriving DecidableEq, Repr

def IExn.isRuntime : IExn → Bool | .runtime => true
def IExn.isException : IExn → Bool | .runtime => true

inductive Fin (ε : Type) | ret | raised (x : ε)
deriving DecidableEq, Repr

/-- how a `yield` of the context manager is resumed by `__aexit__` -/
inductive YResume | ok | exc (x : Exc)
deriving DecidableEq, Repr

/-- how an await of the interruptor is resumed -/
inductive IResume | ok
deriving DecidableEq, Repr

namespace Prim

def enterFrame (s : State) (id : Nat) (timed : Bool) : State :=
  { s with stack := { id := id, timed := timed, active := false, timer := .none, ist := .notCreated } :: s.stack }

def leaveFrame (s : State) (id : Nat) : State :=
  match s.stack with
  | l :: stk => if l.id = id then { s with stack := stk, exited := l :: s.exited } else s
  | [] => s

/-- `timeout_handle = loop.call_later(timeout, trigger_timeout)` -/
def armTimer (s : State) (id : Nat) : State := setLevel s id fun l => { l with timer := .armed }

/-- the loop runs the (not cancelled) timer handle -/
def timerFired (s : State) (id : Nat) : State := setLevel s id fun l => { l with timer := .fired }

/-- `timeout_handle.cancel()` -/
def cancelTimer (s : State) (id : Nat) : State := setLevel s id fun l => { l with timer := .cancelled }

/-- `is_active = b` -/
def setActive (s : State) (id : Nat) (b : Bool) : State := setLevel s id fun l => { l with active := b }

/-- reading `is_active` -/
def isActive (s : State) (id : Nat) : Bool :=
  match findLevel s id with
  | some (l, _) => l.active
  | none => false

/-- `loop.create_task(interruptor())` -/
def spawnInterruptor (s : State) (id : Nat) : State := setLevel s id fun l => { l with ist := .at 0 }

/-- `await task_interrupt(task, my_interrupt)` accepted: the target has the interrupt pending -/
def throwAccepted (s : State) (id : Nat) : State :=
  match findLevel s id with
  | some (l, inBlock) =>
    { s with pending := some (id, true),
             throws := { id := id, inBlock := inBlock, active := l.active, timed := l.timed } :: s.throws }
  | none => { s with pending := some (id, true) }

/-- `loop.call_exception_handler(context)` from the interruptor -/
def reportFailure (s : State) (id : Nat) : State := setLevel s id fun l => { l with failed := true }

end Prim
end Asynkit.Timeout
