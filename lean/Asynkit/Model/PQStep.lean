/-
`PriorityQueue` as a state machine: one `Op` = one public method call.
-/
import Asynkit.Model.PQ

namespace Asynkit
namespace PQ

inductive Op (π : Type) where
  | add (p : π) (x : Nat)
  | extend (es : List (π × Nat))
  | pop                                  -- pop() / popitem()
  | peek                                 -- peek() / peekitem()
  | remove (x : Nat)
  | find (key : Nat → Bool) (rm : Bool)
  | reschedule (key : Nat → Bool) (np : π)
  | refresh
  | sort
  | clear
  | ordered (k : Nat)                    -- ordereditems(): k × next(), then close()
  | len

inductive Out (π : Type) where
  | unit
  | entry (e : Entry π)                  -- the (priority, obj) answered; `seq` is ghost
  | none
  | obj (x : Nat)
  | entries (es : List (Entry π))
  | nat (n : Nat)
  | indexError
  | valueError

variable {π : Type} (H : HeapLib (Entry π)) (plt : π → π → Bool)

def step (s : PQ π) : Op π → PQ π × Out π
  | .add p x => (s.add H plt p x, .unit)
  | .extend es => (s.extend H plt es, .unit)
  | .pop => match s.popEntry H plt with
    | some (e, s') => (s', .entry e)
    | Option.none => (s, .indexError)
  | .peek => match s.peek with
    | some e => (s, .entry e)
    | Option.none => (s, .indexError)
  | .remove x => match s.remove H plt x with
    | some (e, s') => (s', .entry e)
    | Option.none => (s, .valueError)
  | .find key rm => match s.find H plt key rm with
    | (some e, s') => (s', .entry e)
    | (Option.none, s') => (s', .none)
  | .reschedule key np => match s.reschedule H plt key np with
    | (some x, s') => (s', .obj x)
    | (Option.none, s') => (s', .none)
  | .refresh => (s.refresh H plt, .unit)
  | .sort => (s.sort plt, .unit)
  | .clear => (PQ.clear s, .unit)
  | .ordered k => let r := s.ordered H plt k; (r.2, .entries r.1)
  | .len => (s, .nat s.len)

/-- run a history from state `s`, collecting the answers -/
def runFrom (s : PQ π) : List (Op π) → PQ π × List (Out π)
  | [] => (s, [])
  | op :: ops =>
    let r := step H plt s op
    let r2 := runFrom r.1 ops
    (r2.1, r.2 :: r2.2)

/-- run a whole history from the empty queue -/
def run (ops : List (Op π)) : PQ π × List (Out π) := runFrom H plt PQ.empty ops

end PQ
end Asynkit
