/-
C18 — two threads sharing a ready queue.

`Sys` models the priority loop after the repair: every queue operation runs under one lock.
An operation has an arbitrary number `pts` of internal switch points (the Python-level `__lt__`
comparisons inside heapq, line boundaries of the method body …) at which the interpreter may run
the other thread; what the queue looks like *between* those points is deliberately not modelled:
only the lock holder can touch it (that is the lock's contract, and that every access is under the
lock is checked against the source by the translator, see Gen/LockCoverage.lean).

`Deq` models the deque loops: the loop thread's helper operations are sequences of *atomic*
deque primitives addressed by identity (`append`, `remove x`, `insert p x`).
-/
namespace Asynkit.Threads

inductive Tid where
  | loop
  | foreign
deriving DecidableEq, Repr

/-- an operation on the abstract queue state `Q` -/
structure Op (Q : Type) where
  id : Nat
  apply : Q → Q
  pts : Nat            -- internal switch points while the lock is held

structure Th (Q : Type) where
  todo : List (Op Q)
  cur : Option (Op Q × Nat) := none     -- inside an operation (holding the lock), points left

structure Sys (Q : Type) where
  q : Q
  lock : Option Tid
  loopT : Th Q
  forT : Th Q
  log : List (Tid × Op Q)               -- ghost: operations in commit order

variable {Q : Type}

def Sys.th (s : Sys Q) : Tid → Th Q
  | .loop => s.loopT
  | .foreign => s.forT

def Sys.setTh (s : Sys Q) (t : Tid) (th : Th Q) : Sys Q :=
  match t with
  | .loop => { s with loopT := th }
  | .foreign => { s with forT := th }

/-- The scheduler lets thread `t` run up to its next switch point.  A thread that is finished, or
    that needs the lock while the other thread holds it, does not move. -/
def step (s : Sys Q) (t : Tid) : Sys Q :=
  let th := s.th t
  match th.cur with
  | some (op, k + 1) => s.setTh t { th with cur := some (op, k) }
  | some (op, 0) =>
    -- last point: the operation takes effect, the lock is released
    { (s.setTh t { th with cur := none }) with q := op.apply s.q, lock := none, log := s.log ++ [(t, op)] }
  | none =>
    match th.todo with
    | [] => s
    | op :: rest =>
      match s.lock with
      | some _ => s                      -- blocked on the lock
      | none => { (s.setTh t { todo := rest, cur := some (op, op.pts) }) with lock := some t }

def run (s : Sys Q) : List Tid → Sys Q
  | [] => s
  | t :: ts => run (step s t) ts

def init (q0 : Q) (loopOps forOps : List (Op Q)) : Sys Q :=
  { q := q0, lock := none, loopT := { todo := loopOps }, forT := { todo := forOps }, log := [] }

def finished (s : Sys Q) : Prop :=
  s.loopT.todo = [] ∧ s.loopT.cur = none ∧ s.forT.todo = [] ∧ s.forT.cur = none

/-- ids of the operations a thread still has to commit (current one first) -/
def Th.pending (th : Th Q) : List Nat :=
  (match th.cur with | some (op, _) => [op.id] | none => []) ++ th.todo.map (·.id)

/-- ids committed by thread `t`, in order -/
def committed (s : Sys Q) (t : Tid) : List Nat :=
  (s.log.filter (fun e => e.1 == t)).map (·.2.id)

/-! ### Deque loops: atomic primitives addressed by identity -/
namespace Deq

/-- `call_pos(pos, h)` on the deque loops: `call_soon` (append), `remove(h)`, `insert(pos, h)` -/
def callPos (l : List Nat) (pos h : Nat) : List Nat := ((l ++ [h]).erase h).insertIdx pos h

/-- the same with a foreign `append f` landing after the `i`-th primitive (`i = 0,1,2,3`) -/
def callPosWith (l : List Nat) (pos h f : Nat) : Nat → List Nat
  | 0 => callPos (l ++ [f]) pos h
  | 1 => (((l ++ [h]) ++ [f]).erase h).insertIdx pos h
  | 2 => (((l ++ [h]).erase h) ++ [f]).insertIdx pos h
  | _ => callPos l pos h ++ [f]

/-- `queue_find(key, remove=True)` for a handle `h`: snapshot, test, `remove(h)`; a foreign append
    may land before the snapshot, between snapshot and removal, or after. -/
def findRemoveWith (l : List Nat) (h f : Nat) : Nat → List Nat
  | 0 => (l ++ [f]).erase h
  | 1 => (l ++ [f]).erase h          -- the snapshot was taken before `f` arrived; removal is by identity
  | _ => l.erase h ++ [f]

end Deq
end Asynkit.Threads
