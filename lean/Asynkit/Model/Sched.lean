/-
Model of the scheduling layer of asynkit: the ready queue of an event loop and the compound
scheduling operations of src/asynkit/scheduling.py, as the exact sequences of queue operations
the Python performs.

* `QOps Q`     — the `AbstractSchedulingLoop` queue interface over a queue representation `Q`.
* `listOps`    — stock `asyncio` loop through `SchedulingLoopHelper`, and `SchedulingMixin`
                 (src/asynkit/loop/default.py, eventloop.py): a deque, modelled by `Model/Deque`.
* `posOps`     — `PrioritySchedulingMixin` (src/asynkit/experimental/priority.py:641-718): the
                 lead's `PosPQ` model of `PosPriorityQueue`.
* compound operations `taskReinsert`, `sleepInsert…`, `taskSwitch…`, `descend…` (pure functions
  on the queue; the theorems of Props/C08 are about these).
* `World`, `runProgram` — a deterministic interpreter for multi-task scheduling programs, used by
  the correspondence (lean/Drivers/Sched.lean): same programs run on the three real loops.

No Mathlib imports (this file is part of the executable driver).
-/
import Asynkit.Model.Deque
import Asynkit.Model.PosPQ

namespace Asynkit.Sched

/-- What `AbstractSchedulingLoop` (+ `call_soon`, `popleft` of `_run_once`, `task_reschedule`)
    does to the ready queue.  Handles are natural numbers (identity). -/
structure QOps (Q : Type) where
  len       : Q → Nat
  /-- `loop._ready.append(handle)` (`call_soon`, `queue_insert`); the `Rat` is what
      `get_priority(handle)` returns at that moment (ignored by deque based loops) -/
  append    : Q → Rat → Nat → Q
  /-- `queue_insert_pos(handle, position)` -/
  insertPos : Q → Nat → Nat → Q
  /-- `queue_find(key, remove)` -/
  find      : Q → (Nat → Bool) → Bool → Option Nat × Q
  /-- `queue_remove(handle)`; `none` = ValueError -/
  remove    : Q → Nat → Option Q
  /-- `self._ready.popleft()` in `_run_once` -/
  popleft   : Q → Option (Nat × Q)
  /-- `call_pos(position, callback)` for a non-task callback (priority 0.0) -/
  callPos   : Q → Nat → Nat → Q
  /-- `task_reschedule(task)` with the task's new effective priority (only the priority loop
      has it; elsewhere the AttributeError is swallowed by the caller) -/
  resched   : Q → (Nat → Bool) → Rat → Q
  /-- `list(queue_items())` (the priority queue sorts its array in place while doing so) -/
  items     : Q → List Nat × Q

/-- deque based loops: `asyncio.SelectorEventLoop` + `SchedulingLoopHelper`, `SchedulingMixin` -/
def listOps : QOps (List Nat) where
  len q := q.length
  append q _ h := q ++ [h]
  insertPos q pos h := Deque.insert q pos h
  find q key rm := Deque.queueFind q key rm
  remove q h := Deque.queueRemove q h
  popleft q := Deque.popleft q
  callPos q pos h := Deque.callPos q pos h
  resched q _ _ := q
  items q := (q, q)

/-- `PrioritySchedulingMixin` over `PosPriorityQueue`.
    `call_pos` = `call_soon` (append at `get_priority(handle)` = 0.0), `queue_remove`,
    `queue_insert_pos`. -/
def posOps (H : HeapLib (Entry PV)) (draw : Nat → Rat) : QOps PosPQ where
  len s := s.len
  append s p h := s.appendPri H h p draw
  insertPos s pos h := s.insert H pos h draw
  find s key rm := s.find H key rm
  remove s h := s.remove H h draw
  popleft s := s.popleft H draw
  callPos s pos h :=
    match (s.appendPri H h 0 draw).remove H h draw with
    | some s' => s'.insert H pos h draw
    | none => s.appendPri H h 0 draw
  resched s key p := (s.reschedule H key p).2
  items s := s.iter

/-! ### compound operations of scheduling.py (pure functions on the queue) -/
section compound
variable {Q : Type} (O : QOps Q)

/-- `_task_reinsert(loop, task, pos)`:
    `handle = loop.queue_find(key=loop.task_key(task), remove=True)`;
    `if not handle: raise ValueError`; `loop.queue_insert_pos(handle, pos)`.  `none` = ValueError. -/
def taskReinsert (q : Q) (isTask : Nat → Bool) (pos : Nat) : Option Q :=
  match O.find q isTask true with
  | (none, _) => none
  | (some h, q') => some (O.insertPos q' pos h)

/-- the part of `_sleep_insert(loop, pos)` that runs in the calling task:
    `loop.call_pos(0, task_reinsert, current_task(), pos)` then `await asyncio.sleep(0)`, whose
    bare yield makes `Task.__step` do `call_soon(self.__step)`.
    `hcb` = the new handle of the callback, `hme` = the new step handle of the caller,
    `pri` = `get_priority(hme)`. -/
def sleepInsertPre (q : Q) (hcb hme : Nat) (pri : Rat) : Q :=
  O.append (O.callPos q 0 hcb) pri hme

/-- `sleep_insert(pos)` up to and including the run of its `task_reinsert` callback (the loop
    pops the head — the callback, placed at position 0 — and runs it).  `none` = the callback
    raised ValueError or was not at the head. -/
def sleepInsert (q : Q) (hcb hme : Nat) (pri : Rat) (isMe : Nat → Bool) (pos : Nat) : Option Q :=
  match O.popleft (sleepInsertPre O q hcb hme pri) with
  | none => none
  | some (h, q') => if h == hcb then taskReinsert O q' isMe pos else none

/-- `task_switch(task, insert_pos=None)` until the caller sleeps:
    `_task_reinsert(loop, task, 0)`; `await asyncio.sleep(0)`.  `none` = ValueError. -/
def taskSwitchEnd (q : Q) (isTarget : Nat → Bool) (hme : Nat) (pri : Rat) : Option Q :=
  match taskReinsert O q isTarget 0 with
  | none => none
  | some q' => some (O.append q' pri hme)

/-- `task_switch(task, insert_pos=p)`: `_task_reinsert(loop, task, 0)`; `_sleep_insert(loop, p)`
    (including the run of the callback). -/
def taskSwitchAt (q : Q) (isTarget : Nat → Bool) (hcb hme : Nat) (pri : Rat) (isMe : Nat → Bool)
    (p : Nat) : Option Q :=
  match taskReinsert O q isTarget 0 with
  | none => none
  | some q' => sleepInsert O q' hcb hme pri isMe p

/-- `create_task_descend(coro)`: `task = create_task(coro)` (its first step is `call_soon`ed:
    handle `hnew` at priority `priNew`), then `task_switch(task, insert_pos=1)`. -/
def descend (q : Q) (hnew : Nat) (priNew : Rat) (isNew : Nat → Bool) (hcb hme : Nat) (pri : Rat)
    (isMe : Nat → Bool) : Option Q :=
  taskSwitchAt O (O.append q priNew hnew) isNew hcb hme pri isMe 1

/-- `create_task_start(coro)`: `create_task(coro)`; `await asyncio.sleep(0)` -/
def start (q : Q) (hnew : Nat) (priNew : Rat) (hme : Nat) (pri : Rat) : Q :=
  O.append (O.append q priNew hnew) pri hme

end compound

/-! ### queue histories (for `each_runs_once`) -/

/-- one queue-level event of a schedule: what tasks, callbacks and the loop do to the queue -/
inductive QEv where
  | append (h : Nat)              -- call_soon / queue_insert of a handle
  | insertPos (p h : Nat)         -- queue_insert_pos
  | callPos (p h : Nat)           -- call_pos
  | findRm (key : Nat → Bool)     -- queue_find(key, remove=True)
  | remove (h : Nat)              -- queue_remove
  | popleft                       -- the loop runs the next handle

/-- queue + everything ever put into it (`ins`) + everything that came out (`out`: run by the
    loop, or taken out by an explicit remove) -/
structure Hist (Q : Type) where
  q : Q
  ins : List Nat := []
  out : List Nat := []

def stepEv {Q : Type} (O : QOps Q) (s : Hist Q) : QEv → Hist Q
  | .append h => { s with q := O.append s.q 0 h, ins := h :: s.ins }
  | .insertPos p h => { s with q := O.insertPos s.q p h, ins := h :: s.ins }
  | .callPos p h => { s with q := O.callPos s.q p h, ins := h :: s.ins }
  | .findRm key =>
    match O.find s.q key true with
    | (some h, q') => { s with q := q', out := h :: s.out }
    | (none, _) => s
  | .remove h =>
    match O.remove s.q h with
    | some q' => { s with q := q', out := h :: s.out }
    | none => s
  | .popleft =>
    match O.popleft s.q with
    | some (h, q') => { s with q := q', out := h :: s.out }
    | none => s

/-! ### program interpreter (correspondence only) -/

inductive Op where
  | sleep0 | si (p : Nat) | sw (t : Nat) (p : Option Nat) | ri (t p : Nat)
  | cp (p k : Nat) | cs (k : Nat) | cr (p t q : Nat) | cm (t k : Nat)
  | cr8 (s : Nat) | de (s : Nat) | st (s : Nat)
  | fi (t : Nat) | me (t : Nat) | rmi | sp (v : Rat) | bl | wk (t : Nat)
  | aq (l : Nat) | rl (l : Nat) | it | itk (k : Nat)
deriving Repr, Inhabited

/-- what a `Handle` in the ready queue is -/
inductive HK where
  | step (t : Nat)        -- `Task.__step` / `Task.__wakeup` of task `t`
  | cb (k : Nat)          -- a plain callback that logs `k`
  | bound (t k : Nat)     -- a plain callback that is a bound method of task `t` (`task.set_name`): not a step
  | reins (t q : Nat)     -- `task_reinsert(task t, q)` as a callback
deriving Repr, Inhabited

inductive TSt where | unborn | ready | running | blocked | done
deriving Repr, Inhabited, BEq

structure TaskSt where
  prioKind : Bool := true          -- PriorityTask (else a plain asyncio.Task)
  pri : Rat := 0                   -- priority_value
  ops : Array Op := #[]
  pc : Nat := 0
  st : TSt := .unborn
  pend : Option String := none     -- result of the op it is suspended in
  pocket : Option Nat := none
  hold : List Nat := []            -- harness bookkeeping: locks it holds or is acquiring
  owned : List Nat := []           -- PriorityTask._holding_locks
  acq : Option Nat := none         -- suspended inside PriorityLock.acquire of this lock
deriving Inhabited

/-- `PriorityLock`: `_locked`, `_owning`, `_waiters` (a `tools.PriorityQueue` of float keys whose
    objects are the waiting tasks), and which waiters' futures are already resolved. -/
structure LockSt where
  locked : Bool := false
  owner : Option Nat := none
  waiters : PQ Rat := PQ.empty
  futDone : List Nat := []
deriving Inhabited

structure World (Q : Type) where
  q : Q
  tasks : Array TaskSt := #[]
  handles : Array HK := #[]
  locks : Array LockSt := #[]
  log : Array String := #[]

def ratLt (a b : Rat) : Bool := decide (a < b)
abbrev HW : HeapLib (Entry Rat) := cpyHeap _

section interp
variable {Q : Type} (O : QOps Q)

/-- `PriorityTask.effective_priority` / `PriorityLock.effective_priority` (mutually recursive in
    the Python; `fuel` bounds the depth — programs never nest deeper than task→lock→waiter). -/
def effT (w : World Q) : Nat → Nat → Rat
  | 0, t => w.tasks[t]!.pri
  | fuel + 1, t =>
    let own := w.tasks[t]!.pri
    w.tasks[t]!.owned.foldl (fun acc l =>
      let ws := w.locks[l]!.waiters.pq
      ws.foldl (fun acc e =>
        let p := if w.tasks[e.obj]!.prioKind then effT w fuel e.obj else 0
        min acc p) acc) own

/-- recursion bound for effective priorities / propagation: chains task → lock → waiter → … over
    at most a handful of locks taken in a fixed order (acyclic) -/
def effFuel : Nat := 12

/-- `PrioritySchedulingMixin.get_priority(handle)` -/
def gpH (w : World Q) (h : Nat) : Rat :=
  match w.handles[h]? with
  | some (.step t) => if w.tasks[t]!.prioKind then effT w effFuel t else 0
  | _ => 0

def isTaskH (w : World Q) (t : Nat) (h : Nat) : Bool :=
  match w.handles[h]? with
  | some (.step t') => t' == t
  | _ => false

def lab (w : World Q) (h : Nat) : String :=
  match w.handles[h]? with
  | some (.step t) => s!"t{t}"
  | some (.cb k) => s!"c{k}"
  | some (.bound t k) => s!"m{t}.{k}"
  | some (.reins t q) => s!"r{t}.{q}"
  | none => "x"

abbrev M (Q : Type) := StateM (World Q)

def newHandle (k : HK) : M Q Nat :=
  modifyGet fun w => (w.handles.size, { w with handles := w.handles.push k })

def appendH (h : Nat) : M Q Unit :=
  modify fun w => { w with q := O.append w.q (gpH w h) h }

def logS (s : String) : M Q Unit :=
  modify fun w => { w with log := w.log.push s }

def setTask (t : Nat) (f : TaskSt → TaskSt) : M Q Unit :=
  modify fun w => { w with tasks := w.tasks.modify t f }

def setLock (l : Nat) (f : LockSt → LockSt) : M Q Unit :=
  modify fun w => { w with locks := w.locks.modify l f }

def born (w : World Q) (t : Nat) : Bool :=
  match w.tasks[t]? with
  | some ts => ts.st != .unborn
  | none => false

/-- `await asyncio.sleep(0)`: the task's next step is `call_soon`ed -/
def sleep0 (me : Nat) : M Q Unit := do
  let h ← newHandle (.step me)
  appendH O h

/-- `_sleep_insert(loop, pos)` (caller's part) -/
def sleepInsertM (me pos : Nat) : M Q Unit := do
  let hcb ← newHandle (.reins me pos)
  modify fun w => { w with q := O.callPos w.q 0 hcb }
  sleep0 O me

/-- `_task_reinsert`; `false` = ValueError -/
def reinsertM (t pos : Nat) : M Q Bool := do
  let w ← get
  match taskReinsert O w.q (isTaskH w t) pos with
  | none => pure false
  | some q' => set { w with q := q' }; pure true

/-- `create_task(coro)`: the new task's first step is `call_soon`ed -/
def spawn (s : Nat) : M Q Unit := do
  setTask s fun ts => { ts with st := .ready }
  let h ← newHandle (.step s)
  appendH O h

/-- `PriorityLock._take_lock(task)` -/
def takeLock (me l : Nat) : M Q Unit := do
  setLock l fun ls => { ls with locked := true, owner := some me }
  setTask me fun ts => if ts.prioKind then { ts with owned := l :: ts.owned } else ts

/-- `PriorityLock._wake_up_first()` -/
def wakeFirst (l : Nat) : M Q Unit := do
  let w ← get
  -- `for fut, _ in self._waiters: if fut.done(): return` — a waiter already on its way
  if !w.locks[l]!.futDone.isEmpty then pure () else
  match w.locks[l]!.waiters.peek with
  | none => pure ()
  | some e => do
      setLock l fun ls => { ls with futDone := e.obj :: ls.futDone }
      setTask e.obj fun ts => { ts with st := .ready }
      let h ← newHandle (.step e.obj)
      appendH O h

/-- `PriorityTask.propagate_priority` (`propTask`) and `PriorityLock.propagate_priority`
    (`propLock`), mutually recursive in the Python along the wait-for chain:
    * a runnable PriorityTask is re-keyed in the ready queue with its effective priority
      (`loop.task_reschedule`; a positional entry keeps its place);
    * a PriorityTask blocked in `PriorityLock.acquire` (`_waiting_on`) forwards to that lock, which
      first forwards to *its* owner and then re-keys the waiter in its `_waiters` queue;
    * anything else (plain Task: AttributeError; blocked on a plain future; done) — nothing.
    `inl o` = task `o`, `inr (l, from)` = lock `l` notified by its waiter `from`. -/
def propagate : Nat → Nat ⊕ (Nat × Nat) → M Q Unit
  | 0, _ => pure ()
  | fuel + 1, .inl o => do
    let w ← get
    let ts := w.tasks[o]!
    if !ts.prioKind then pure ()
    else if ts.st == .ready then
      set { w with q := O.resched w.q (isTaskH w o) (effT w effFuel o) }
    else if ts.st == .blocked then
      match ts.acq with
      | some l2 => propagate fuel (.inr (l2, o))
      | none => pure ()
    else pure ()
  | fuel + 1, .inr (l, frm) => do
    let w ← get
    match w.locks[l]!.owner with
    | some o => propagate fuel (.inl o)
    | none => pure ()
    let w1 ← get
    let p := effT w1 effFuel frm
    setLock l fun ls => { ls with waiters := (ls.waiters.reschedule HW ratLt (· == frm) p).2 }

/-- one operation of task `me`; returns (result, suspended?) -/
def doOp (me : Nat) (op : Op) : M Q (String × Bool) := do
  let w ← get
  match op with
  | .sleep0 => sleep0 O me; pure ("ok", true)
  | .si p => sleepInsertM O me p; pure ("ok", true)
  | .sw t p =>
    if !born w t then pure ("nop", false) else
    if !(← reinsertM O t 0) then pure ("V", false) else do
      match p with
      | none => sleep0 O me
      | some p => sleepInsertM O me p
      pure ("ok", true)
  | .ri t p =>
    if !born w t then pure ("nop", false) else
    if (← reinsertM O t p) then pure ("ok", false) else pure ("V", false)
  | .cp p k => do
    let h ← newHandle (.cb k)
    modify fun w => { w with q := O.callPos w.q p h }
    pure ("ok", false)
  | .cm t k =>
    -- loop.call_soon(task_t.set_name, …): a callback bound to the task; `task_from_handle` is None for it
    if !born w t then pure ("nop", false) else do
      let h ← newHandle (.bound t k)
      appendH O h
      pure ("ok", false)
  | .cs k => do
    let h ← newHandle (.cb k)
    appendH O h
    pure ("ok", false)
  | .cr p t q =>
    if !born w t then pure ("nop", false) else do
      let h ← newHandle (.reins t q)
      modify fun w => { w with q := O.callPos w.q p h }
      pure ("ok", false)
  | .cr8 s =>
    if born w s || s ≥ w.tasks.size then pure ("nop", false) else do
      spawn O s; pure ("ok", false)
  | .de s =>
    if born w s || s ≥ w.tasks.size then pure ("nop", false) else do
      spawn O s
      let _ ← reinsertM O s 0
      sleepInsertM O me 1
      pure ("ok", true)
  | .st s =>
    if born w s || s ≥ w.tasks.size then pure ("nop", false) else do
      spawn O s
      sleep0 O me
      pure ("ok", true)
  | .fi t =>
    if !born w t then pure ("nop", false) else do
      let r := O.find w.q (isTaskH w t) false
      set { w with q := r.2 }
      setTask me fun ts => { ts with pocket := r.1 }
      pure (if r.1.isSome then "some" else "none", false)
  | .me t =>
    if !born w t then pure ("nop", false) else
      match O.find w.q (isTaskH w t) true with
      | (none, _) => pure ("m0", false)
      | (some h, q') => do
        let mid := O.len q'
        set { w with q := q' }
        appendH O h
        pure (s!"m1.{mid}", false)
  | .rmi =>
    match w.tasks[me]!.pocket with
    | none => pure ("nop", false)
    | some h =>
      match O.remove w.q h with
      | none => pure ("V", false)
      | some q' => do
        set { w with q := q' }
        appendH O h
        pure ("ok", false)
  | .sp v => do
    setTask me fun ts => if ts.prioKind then { ts with pri := v } else ts
    pure ("ok", false)
  | .bl => do
    setTask me fun ts => { ts with st := .blocked }
    pure ("ok", true)
  | .wk t =>
    match w.tasks[t]? with
    | some ts =>
      if ts.st == .blocked && ts.acq.isNone then do
        setTask t fun ts => { ts with st := .ready }
        let h ← newHandle (.step t)
        appendH O h
        pure ("w1", false)
      else pure ("w0", false)
    | none => pure ("w0", false)
  | .aq l =>
    -- harness discipline: locks are taken in increasing order (no deadlock), never twice
    if w.tasks[me]!.hold.any (fun h => h ≥ l) || l ≥ w.locks.size then pure ("nop", false) else do
      setTask me fun ts => { ts with hold := l :: ts.hold }
      let ls := w.locks[l]!
      if !ls.locked && ls.waiters.pq.isEmpty then do
        takeLock me l
        pure ("ok", false)
      else do
        -- priority = task.effective_priority() (0 for a plain Task); self._waiters.add(priority, entry)
        let p := if w.tasks[me]!.prioKind then effT w effFuel me else 0
        setLock l fun ls => { ls with waiters := ls.waiters.add HW ratLt p me }
        -- with _waiting_on(task, self): …; owning.propagate_priority(self)
        setTask me fun ts => { ts with acq := some l }
        match ls.owner with
        | some o => propagate O effFuel (.inl o)
        | none => pure ()
        setTask me fun ts => { ts with st := .blocked }
        pure ("ok", true)
  | .rl l =>
    if !w.tasks[me]!.hold.contains l || w.locks[l]!.owner != some me then pure ("nop", false) else do
      setLock l fun ls => { ls with owner := none, locked := false }
      setTask me fun ts => { ts with hold := ts.hold.erase l, owned := ts.owned.erase l }
      wakeFirst O l
      pure ("ok", false)
  | .itk k => do
    -- it = iter(get_ready_queue()); k × next(it); await asyncio.sleep(0); it.close(): the iterator works on a
    -- snapshot (the priority queue sorts its array in place first), so keeping it open withholds nothing
    let r := O.items w.q
    set { w with q := r.2 }
    sleep0 O me
    pure ("[" ++ ",".intercalate ((r.1.take k).map (lab w)) ++ "]", true)
  | .it => do
    let r := O.items w.q
    set { w with q := r.2 }
    pure ("[" ++ ",".intercalate (r.1.map (lab w)) ++ "]", false)

def logOp (me : Nat) (res : String) : M Q Unit := do
  let w ← get
  logS s!"t{me}.{w.tasks[me]!.pc}={res}/{O.len w.q}"
  setTask me fun ts => { ts with pc := ts.pc + 1 }

/-- run the ops of `me` until one suspends or the script ends -/
def runOps (me : Nat) : Nat → M Q Unit
  | 0 => pure ()
  | fuel + 1 => do
    let w ← get
    let ts := w.tasks[me]!
    match ts.ops[ts.pc]? with
    | none => setTask me fun ts => { ts with st := .done }
    | some op =>
      let (res, susp) ← doOp O me op
      if susp then
        setTask me fun ts => { ts with pend := some res, st := if ts.st == .running then .ready else ts.st }
      else do
        logOp O me res
        runOps me fuel

/-- `Task.__step`: resume the coroutine -/
def stepTask (me : Nat) : M Q Unit := do
  let w ← get
  let ts := w.tasks[me]!
  setTask me fun ts => { ts with st := .running }
  -- the tail of PriorityLock.acquire after `await fut`: _take_lock; finally: _waiters.remove(entry)
  match ts.acq with
  | some l => do
    takeLock me l
    setLock l fun ls =>
      { ls with futDone := ls.futDone.erase me,
                waiters := match ls.waiters.remove HW ratLt me with
                           | some (_, q') => q'
                           | none => ls.waiters }
    setTask me fun ts => { ts with acq := none }
  | none => pure ()
  match ts.pend with
  | some res => do
    setTask me fun ts => { ts with pend := none }
    logOp O me res
  | none => pure ()
  runOps O me (ts.ops.size + 1)

def runHandle (h : Nat) : M Q Unit := do
  let w ← get
  match w.handles[h]? with
  | some (.cb k) => logS s!"c{k}/{O.len w.q}"
  | some (.bound t k) => logS s!"m{t}.{k}/{O.len w.q}"
  | some (.reins t p) =>
    if (← reinsertM O t p) then do
      let w ← get
      logS s!"r{t}.{p}=ok/{O.len w.q}"
    else logS s!"r{t}.{p}=V/{O.len w.q}"
  | some (.step t) => stepTask O t
  | none => pure ()

/-- `run_forever` until the ready queue is empty -/
def runLoop : Nat → M Q Unit
  | 0 => logS "!diverge"
  | fuel + 1 => do
    let w ← get
    match O.popleft w.q with
    | none => pure ()
    | some (h, q') =>
      set { w with q := q' }
      runHandle O h
      runLoop fuel

inductive Init where | task (s : Nat) | cb (k : Nat)

def runProgram (q0 : Q) (tasks : Array TaskSt) (nlocks : Nat) (init : List Init) (fuel : Nat) :
    Array String :=
  let w0 : World Q := { q := q0, tasks := tasks, locks := Array.replicate nlocks {} }
  let prog : M Q Unit := do
    for i in init do
      match i with
      | .task s =>
        let w ← get
        if born w s || s ≥ w.tasks.size then pure () else spawn O s
      | .cb k =>
        let h ← newHandle (.cb k)
        appendH O h
    runLoop O fuel
  (prog.run w0).2.log

end interp
end Asynkit.Sched
