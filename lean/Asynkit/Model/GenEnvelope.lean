/-
The generator-object envelope and PEP 343's `with` statement — the two things that stay *trusted* under the
inlining of `@contextlib.contextmanager` / `@asynccontextmanager` functions that the translators perform
(segexec's `async with <generator cm>`, lock2lean's `_waiting_on`, corostart2lean's `cancelling`).
`contextlib.py` itself is no longer trusted: `Gen/Contextlib.lean` is regenerated from the running interpreter's
file and `Lemmas/GenEqContextlib.lean` proves the inlining rule from it.

* `Exn`  — exception *objects* as far as `contextlib` looks at them: class (StopIteration / StopAsyncIteration /
  RuntimeError / anything else), identity, `__cause__`.  Objects the interpreter creates itself are separate
  constructors (so they are never identical to an object the `with` body raised).
* `GenOps` — what `next(gen)`/`anext`, `gen.throw(v)`/`athrow`, `gen.close()`/`aclose` do to the world `σ` (which
  contains the generator's own state): yield again, or raise (returning = raising Stop(Async)Iteration).
  For the asynchronous protocol `await anext(gen)` etc. are taken big-step: PEP 492 delegation is transparent, the
  awaiting `__aexit__` sees only the final outcome; whatever arrives while the generator is suspended inside
  its own awaits (a cancellation during the clean-up, say) is thrown into the *generator's* frame and shows up
  here as that final outcome.
* `envelope` — CPython's generator object around a generator function with exactly one `yield`, given by what it
  does before the yield (`pre`), when resumed normally (`onNormal`) and when an exception is thrown in at the
  yield (`onThrow`); including PEP 479 (a Stop(Async)Iteration escaping the body becomes a RuntimeError whose
  `__cause__` it is).
* `withStmt` — `with cm: body` / `async with cm: body` as PEP 343 / PEP 492 define it.
Core Lean only.
-/
namespace Asynkit.GenEnv

inductive Exn
  | user (id : Nat)            -- an exception object of any other class
  | stopIter (id : Nat)        -- a StopIteration instance made by user code
  | stopAsync (id : Nat)       -- a StopAsyncIteration instance made by user code
  | runtimeUser (id : Nat)     -- a RuntimeError instance made by user code
  | genReturn                  -- the Stop(Async)Iteration the interpreter raises when the generator returns
  | pep479 (cause : Exn)       -- RuntimeError("generator raised StopIteration") from cause
  | didntYield | didntStop | didntStopAfterThrow   -- contextlib's own RuntimeErrors
deriving DecidableEq, Repr

namespace Exn
/-- `isinstance(x, StopIteration)` -/
def isStopIteration : Exn → Bool | stopIter _ => true | _ => false
def isStopAsyncIteration : Exn → Bool | stopAsync _ => true | _ => false
/-- `except StopIteration` around `next(gen)` / `gen.throw` of a *synchronous* generator -/
def isStopSync : Exn → Bool | stopIter _ => true | genReturn => true | _ => false
/-- `except StopAsyncIteration` around `anext(gen)` / `gen.athrow` of an *asynchronous* generator -/
def isStopAsync : Exn → Bool | stopAsync _ => true | genReturn => true | _ => false
def isRuntimeError : Exn → Bool
  | runtimeUser _ => true | pep479 _ => true | didntYield => true | didntStop => true
  | didntStopAfterThrow => true | _ => false
/-- `x.__cause__ is v` -/
def causeIs : Exn → Exn → Bool | pep479 c, v => decide (c = v) | _, _ => false
/-- an object the `with` body can have raised (not one the interpreter / contextlib creates on the spot) -/
def fromBody : Exn → Bool
  | user _ => true | stopIter _ => true | stopAsync _ => true | runtimeUser _ => true | _ => false
end Exn

/-- result of resuming a generator -/
inductive GRes | yielded | raised (x : Exn)
deriving DecidableEq, Repr

structure GenOps (σ : Type) where
  next  : σ → σ × GRes
  throw : σ → Exn → σ × GRes
  close : σ → σ

inductive Fin (α : Type) | ret (v : α) | raised (x : Exn)
deriving DecidableEq, Repr

/-! ### one-yield generator functions and their generator object -/

inductive Phase | created | suspended | finished
deriving DecidableEq, Repr

/-- a generator function with exactly one `yield`: `none` = the code completed (for `onNormal`/`onThrow`: the
generator returns), `some e` = it raised `e` -/
structure Shape (σ : Type) where
  pre      : σ → σ × Option Exn
  onNormal : σ → σ × Option Exn
  onThrow  : σ → Exn → σ × Option Exn

/-- PEP 479 / its async counterpart -/
def escape (async : Bool) (e : Exn) : Exn :=
  if e.isStopIteration || (async && e.isStopAsyncIteration) then .pep479 e else e

def afterRun (async : Bool) {σ : Type} (r : σ × Option Exn) : (σ × Phase) × GRes :=
  match r with
  | (s, none) => ((s, .finished), .raised .genReturn)
  | (s, some e) => ((s, .finished), .raised (escape async e))

/-- CPython's (async) generator object around a one-yield generator function -/
def envelope (async : Bool) {σ : Type} (g : Shape σ) : GenOps (σ × Phase) where
  next := fun (s, ph) =>
    match ph with
    | .created =>
      match g.pre s with
      | (s', none) => ((s', .suspended), .yielded)
      | (s', some e) => ((s', .finished), .raised (escape async e))
    | .suspended => afterRun async (g.onNormal s)
    | .finished => ((s, .finished), .raised .genReturn)
  throw := fun (s, ph) e =>
    match ph with
    | .created => ((s, .finished), .raised e)
    | .suspended => afterRun async (g.onThrow s e)
    | .finished => ((s, .finished), .raised e)
  close := fun (s, _) => (s, .finished)

/-- the usual shape `pre; try: yield finally: post` -/
def finallyShape {σ : Type} (pre post : σ → σ × Option Exn) : Shape σ where
  pre := pre
  onNormal := post
  onThrow := fun s e => match post s with
    | (s', none) => (s', some e)
    | (s', some e') => (s', some e')

/-! ### `with` -/

/-- `with cm: body` (PEP 343; `async with` by PEP 492): `enter`, the body, then `exit(None)` resp. `exit(exc)` whose
true result suppresses the exception.  Outcome: `none` = the statement completed, `some e` = it raised `e`. -/
def withStmt {σ : Type} (enter : σ → σ × Fin Unit) (exit : σ → Option Exn → σ × Fin Bool)
    (body : σ → σ × Option Exn) (s : σ) : σ × Option Exn :=
  match enter s with
  | (s1, .raised e) => (s1, some e)
  | (s1, .ret _) =>
    match body s1 with
    | (s2, none) =>
      match exit s2 none with
      | (s3, .ret _) => (s3, none)
      | (s3, .raised e) => (s3, some e)
    | (s2, some e) =>
      match exit s2 (some e) with
      | (s3, .ret true) => (s3, none)
      | (s3, .ret false) => (s3, some e)
      | (s3, .raised e') => (s3, some e')

/-- the inlining rule the translators apply: the generator's code spliced around the body.  `e' = e` covers "the
same exception comes back out of the generator": it is re-raised as it is (contextlib returns False); any other
exception leaves through PEP 479's filter. -/
def inlined (async : Bool) {σ : Type} (g : Shape σ) (body : σ → σ × Option Exn) (s : σ) : σ × Option Exn :=
  match g.pre s with
  | (s1, some e) => (s1, some (escape async e))
  | (s1, none) =>
    match body s1 with
    | (s2, none) =>
      match g.onNormal s2 with
      | (s3, none) => (s3, none)
      | (s3, some e') => (s3, some (escape async e'))
    | (s2, some e) =>
      match g.onThrow s2 e with
      | (s3, none) => (s3, none)
      | (s3, some e') => (s3, some (if e' = e then e else escape async e'))

end Asynkit.GenEnv
