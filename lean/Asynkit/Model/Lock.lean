/-
PriorityLock / PriorityTask (src/asynkit/experimental/priority.py) as a small-step transition
system over an abstract task/future kernel.  The model describes the code WITH the three repairs
fixes/C13-double-wakeup.patch (`_wake_up_first` does nothing while a queued waiter's future is
already done), fixes/C12-propagate-key.patch (`propagate_priority` re-keys the waiting *task*) and
fixes/C12-fallback-rekey.patch (a waiter that gives up propagates again to the lock's owner).

One model state per `await`.  A task is resumed by `Ev.resume` (one ready handle runs: the loop
calls Task.__step / Task.__wakeup), then performs any number of non-suspending operations and
finally one suspending operation (`acquire` that has to wait, `sleep`, `wait` on an unset event,
`finish`).  Worker code is arbitrary: the theorems quantify over every event sequence, i.e. over
every program, every schedule and every placement of cancel / task_throw / task_interrupt.

Python ↔ model (priority.py line numbers of the unchanged tree)
  acquire() 141-183        : `Ev.acquire` (fast path 150-152, queueing 156-177) and the
                             continuation in `Ev.resume` for `Pos.acq k` (178-183: `_take_lock`,
                             `finally: remove; if not locked: _wake_up_first`)
  _waiting_on 88-100       : `waitingOn` set in `Ev.acquire`, cleared in `Ev.resume`
  _take_lock 185-192       : `takeLock`   (the `assert self._owning is None` is NOT modelled as a
                             guard: the ghost field `owns` records every task that took the lock,
                             and mutual exclusion is a theorem about `owns`)
  release 194-208          : `Ev.release`; `Ev.badRelease` = the refusing branch (lock not locked, or
                             `assert self._owning() is task` fails): nothing is changed
  _wake_up_first 210-217   : `wakeUpFirst` (repaired form)
  propagate_priority 236-263, 372-388 : `propT` / `propL`
  effective_priority       : `PrioGraph.effT` on `State.graph`
Kernel (asyncio, MODELLED NOT VERIFIED; validated by the trace-acceptance stream):
  Status.blocked   Task._fut_waiter pending, wakeup registered on it
  Status.woken c   wakeup handle in the ready queue (future done; c = it was cancelled)
  Status.ready x   step handle in the ready queue (x = an exception is its argument)
  mustCancel       Task._must_cancel
  Ev.cancel        Task.cancel(): cancels the awaited future if pending, else sets _must_cancel
  Ev.throw/interrupt  asynkit.experimental.interrupt.task_throw / task_interrupt on a Python task
  rkey             (priority loop only) key of the task's handle in PosPriorityQueue
The waiter queue is a list in arrival order with a key per entry; its pop order is the stable
sort by key.  That `PriorityQueue` really pops in (key, arrival) order is property C17.
Exceptions are abstracted to "an exception is pending" (Bool): nothing in `acquire` looks at the
type.  `Ev.throw i e` still carries `e` so that the theorems read "for any e".
-/
import Asynkit.Model.PrioGraph

namespace Asynkit.Lock
open Asynkit.PrioGraph

inductive Fut where
  | pending | result | cancelled
deriving DecidableEq, Repr, Inhabited

def Fut.done : Fut → Bool
  | .pending => false
  | _ => true

inductive Status where
  | blocked
  | woken (cancelled : Bool)
  | ready (exc : Bool)
  | running
  | done
deriving DecidableEq, Repr, Inhabited

inductive Pos where
  | top                -- not inside acquire / Event.wait
  | acq (k : Nat)      -- suspended at `await fut` of PriorityLock.acquire (lock k)
  | evt (e : Nat)      -- suspended in asyncio.Event.wait (event e)
deriving DecidableEq, Repr, Inhabited

structure Waiter where
  task : Nat
  key : Rat
  fut : Fut
deriving Repr, Inhabited

structure Task where
  prio : Option Rat := none        -- some p: PriorityTask(priority=p); none: plain / Python task
  status : Status := .done
  mustCancel : Bool := false
  pos : Pos := .top
  owns : List Nat := []            -- ghost: locks this task took and has not released
  holding : List Nat := []         -- PriorityTask._holding_locks
  waitingOn : Option Nat := none   -- PriorityTask._waiting_on
  rkey : Option Rat := none        -- class-1 key in the priority loop's ready queue
deriving Inhabited

structure LockSt where
  locked : Bool := false
  owner : Option Nat := none
  waiters : List Waiter := []
deriving Inhabited

structure State where
  tasks : Nat → Task := fun _ => {}
  locks : Nat → LockSt := fun _ => {}
  evSet : Nat → Bool := fun _ => false
  cur : Option Nat := none
  fuel : Nat := 0                  -- |tasks| + |locks| + 1
  prioLoop : Bool := false

inductive Ev where
  | resume (i : Nat)
  | acquire (k : Nat)
  | release (k : Nat)
  | acquireFails (k : Nat)  -- `acquire()` raises from inside its try block (RecursionError of the priority
                            -- recursion on a wait-for cycle): the `finally` clause has undone the queueing
  | badRelease (k : Nat)   -- `release()` by a task that does not hold the lock: refused, no change
  | sleep
  | wait (e : Nat)
  | finish
  | cancel (i : Nat)
  | throw (i : Nat) (e : Nat)
  | interrupt (i : Nat) (e : Nat)
  | setEv (e : Nat)
  | reinsert (i : Nat) (promoted : List Nat)  -- scheduling.task_reinsert(task i, pos): its ready entry and the
                                              -- `pos` entries popped before it become positional (class 0)
deriving Repr, DecidableEq

/-! ### state access -/

def State.setTask (s : State) (i : Nat) (t : Task) : State :=
  { s with tasks := fun j => if j = i then t else s.tasks j }

def State.setLock (s : State) (k : Nat) (l : LockSt) : State :=
  { s with locks := fun j => if j = k then l else s.locks j }

def State.graph (s : State) : Graph where
  own := fun i => (s.tasks i).prio.getD 0
  holding := fun i => (s.tasks i).holding
  waiters := fun k => (s.locks k).waiters.map (·.task)

/-- `task.effective_priority()`, or 0 for a task without that method -/
def State.eff (s : State) (i : Nat) : Rat := effT s.graph s.fuel i

def Status.runnable : Status → Bool
  | .blocked => false
  | .done => false
  | _ => true

/-- the handle of task `i` is appended to the ready queue now (call_soon): on the priority
    loop it is keyed by the task's effective priority at this moment -/
def State.enqueue (s : State) (i : Nat) (st : Status) : State :=
  let t := s.tasks i
  s.setTask i { t with status := st, rkey := if s.prioLoop then some (s.eff i) else none }

/-! ### waiter queue -/

/-- first entry with minimal key = head of the PriorityQueue (`peek`; ties: earliest arrival) -/
def headW : List Waiter → Option Waiter
  | [] => none
  | w :: ws =>
    match headW ws with
    | none => some w
    | some h => if h.key < w.key then some h else some w

def setFutOf (ws : List Waiter) (i : Nat) (f : Fut) : List Waiter :=
  ws.map fun w => if w.task = i then { w with fut := f } else w

def rekey (ws : List Waiter) (i : Nat) (p : Rat) : List Waiter :=
  ws.map fun w => if w.task = i then { w with key := p } else w

def removeTask (ws : List Waiter) (i : Nat) : List Waiter := ws.filter (fun w => w.task != i)

/-- pop order of the queue (stable insertion sort by key) -/
def insertW (w : Waiter) : List Waiter → List Waiter
  | [] => [w]
  | x :: xs => if w.key < x.key then w :: x :: xs else x :: insertW w xs
def popOrder (ws : List Waiter) : List Waiter := ws.foldl (fun acc w => insertW w acc) []

/-- `_wake_up_first` (repaired): nothing while a queued waiter's future is done; otherwise the
    head's future gets its result, and if that task still has its wakeup registered
    (it is blocked) the wakeup is scheduled. -/
def State.wakeUpFirst (s : State) (k : Nat) : State :=
  let l := s.locks k
  if l.waiters.any (·.fut.done) then s else
  match headW l.waiters with
  | none => s
  | some w =>
    let s1 := s.setLock k { l with waiters := setFutOf l.waiters w.task .result }
    if (s1.tasks w.task).status = .blocked then s1.enqueue w.task (.woken false) else s1

/-- `_take_lock` -/
def State.takeLock (s : State) (k i : Nat) : State :=
  let t := s.tasks i
  let l := s.locks k
  (s.setLock k { l with locked := true, owner := some i }).setTask i
    { t with owns := k :: t.owns, holding := if t.prio.isSome then k :: t.holding else t.holding }

/-! ### priority propagation -/

mutual
/-- PriorityTask.propagate_priority (priority.py:372-388) -/
def propT (s : State) : Nat → Nat → State
  | 0, _ => s
  | f + 1, o =>
    let t := s.tasks o
    if t.prio.isNone then s            -- AttributeError: not a PriorityTask
    else if t.status.runnable then
      -- loop.task_reschedule(self): only the priority loop has it; positional entries and
      -- tasks not in the queue are left alone
      if s.prioLoop && t.rkey.isSome then s.setTask o { t with rkey := some (s.eff o) } else s
    else match t.waitingOn with
      | some k1 => propL s f k1 o
      | none => s
/-- PriorityLock.propagate_priority (priority.py:236-263, repaired key) -/
def propL (s : State) : Nat → Nat → Nat → State
  | 0, _, _ => s
  | f + 1, k, from_ =>
    let s1 := match (s.locks k).owner with
      | some o => propT s f o
      | none => s
    let l := s1.locks k
    s1.setLock k { l with waiters := rekey l.waiters from_ (s1.eff from_) }
end

/-! ### transitions -/

def Ev.enabled (s : State) : Ev → Bool
  | .resume i => s.cur.isNone &&
      (match (s.tasks i).status with | .woken _ => true | .ready _ => true | _ => false)
  | .acquire k => match s.cur with
      | some i => (s.locks k).owner != some i && !(s.tasks i).owns.contains k
      | none => false
  | .release k => match s.cur with
      | some i => (s.locks k).owner == some i
      | none => false
  | .acquireFails k => match s.cur with
      | some i => (s.locks k).owner != some i
      | none => false
  | .badRelease k => match s.cur with
      | some i => (s.locks k).owner != some i
      | none => false
  | .sleep => s.cur.isSome
  | .wait _ => s.cur.isSome
  | .finish => match s.cur with
      | some i => (s.tasks i).owns.isEmpty
      | none => false
  | .cancel i => s.cur != some i
  | .throw i _ => s.cur != some i
  | .interrupt i _ => s.cur != some i
  | .setEv _ => true
  | .reinsert i _ => s.cur != some i

/-- the exception (if any) with which Task.__step resumes the coroutine -/
def resumeExc (t : Task) : Bool :=
  t.mustCancel || (match t.status with | .woken c => c | .ready x => x | _ => false)

def State.doResume (s : State) (i : Nat) : State :=
  let t := s.tasks i
  let exc := resumeExc t
  match t.pos with
  | .acq k =>
    -- priority.py:178-183 and the exit of `_waiting_on`.  (The model clears `pos`/`waitingOn`
    -- first; nothing in between reads them.)
    let s := { s.setTask i { t with status := .running, mustCancel := false, rkey := none,
                                    pos := .top, waitingOn := none } with cur := some i }
    let l := s.locks k
    let s := s.setLock k { l with waiters := removeTask l.waiters i }
    let s := if exc then s else s.takeLock k i
    if (s.locks k).locked then
      -- fixes/C12-fallback-rekey.patch: a waiter that gives up while another task holds the lock
      -- propagates once more, so that the owner's keys fall back with its effective priority
      (if exc then (match (s.locks k).owner with | some o => propT s s.fuel o | none => s) else s)
    else s.wakeUpFirst k
  | _ =>
    { s.setTask i { t with status := .running, mustCancel := false, rkey := none, pos := .top }
      with cur := some i }

def State.doAcquire (s : State) (i k : Nat) : State :=
  let l := s.locks k
  if !l.locked && l.waiters.isEmpty then s.takeLock k i
  else
    let t := s.tasks i
    let s := s.setTask i { t with waitingOn := if t.prio.isSome then some k else none }
    let s := s.setLock k { l with waiters := l.waiters ++ [{ task := i, key := s.eff i, fut := .pending }] }
    let s := match l.owner with
      | some o => propT s s.fuel o
      | none => s
    { s.setTask i { s.tasks i with status := .blocked, pos := .acq k } with cur := none }

def State.doRelease (s : State) (i k : Nat) : State :=
  let l := s.locks k
  let t := s.tasks i
  let s := s.setLock k { l with owner := none, locked := false }
  let s := s.setTask i { t with owns := t.owns.erase k, holding := t.holding.erase k }
  s.wakeUpFirst k

def State.doCancel (s : State) (i : Nat) : State :=
  let t := s.tasks i
  match t.status with
  | .done => s
  | .running => s
  | .blocked =>
    match t.pos with
    | .acq k =>
      let l := s.locks k
      if l.waiters.any (fun w => w.task = i && w.fut = .pending) then
        (s.setLock k { l with waiters := setFutOf l.waiters i .cancelled }).enqueue i (.woken true)
      else s.setTask i { t with mustCancel := true }
    | .evt _ => s.enqueue i (.woken true)
    | .top => s.setTask i { t with mustCancel := true }
  | _ => s.setTask i { t with mustCancel := true }

/-- does task_throw refuse (RuntimeError)? -/
def throwRefused (t : Task) : Bool :=
  match t.status with
  | .done => true
  | .running => true
  | .blocked => false
  | .woken c => c || t.mustCancel
  | .ready _ => t.mustCancel

def State.doThrow (s : State) (i : Nat) (positional : Bool) : State :=
  let t := s.tasks i
  if throwRefused t then s else
  let s := s.enqueue i (.ready true)
  if positional then s.setTask i { s.tasks i with rkey := none } else s

def State.doSetEv (s : State) (e : Nat) : State :=
  { s with
    evSet := fun j => if j = e then true else s.evSet j
    tasks := fun j =>
      let t := s.tasks j
      if t.status = .blocked && t.pos = .evt e then
        { t with status := .woken false, rkey := if s.prioLoop then some (s.eff j) else none }
      else t }

/-- `PosPriorityQueue.insert(pos, handle)`: the listed tasks' ready entries lose their class-1 key -/
def State.clearRkeys (s : State) (js : List Nat) : State :=
  js.foldl (fun st j => st.setTask j { st.tasks j with rkey := none }) s

def State.apply (s : State) : Ev → State
  | .resume i => s.doResume i
  | .acquire k => match s.cur with | some i => s.doAcquire i k | none => s
  | .release k => match s.cur with | some i => s.doRelease i k | none => s
  | .acquireFails _ => s   -- entry added and removed again, `_waiting_on` set and cleared: no net change
  | .badRelease _ => s      -- priority.py:206-211: RuntimeError / AssertionError before any change
  | .sleep => match s.cur with
      | some i => { s.enqueue i (.ready false) with cur := none }
      | none => s
  | .wait e => match s.cur with
      | some i =>
        if s.evSet e then s
        else { s.setTask i { s.tasks i with status := .blocked, pos := .evt e } with cur := none }
      | none => s
  | .finish => match s.cur with
      | some i => { s.setTask i { s.tasks i with status := .done } with cur := none }
      | none => s
  | .cancel i => s.doCancel i
  | .throw i _ => s.doThrow i false
  | .interrupt i _ => s.doThrow i true
  | .setEv e => s.doSetEv e
  | .reinsert i ps => s.clearRkeys (i :: ps)

/-- Reachability: any initial task population (every task ready to take its first step or
    absent, no lock held, nobody queued), then any sequence of enabled events. -/
structure Initial (s : State) : Prop where
  cur : s.cur = none
  locks : ∀ k, s.locks k = {}
  tasks : ∀ i, let t := s.tasks i
    (t.status = .ready false ∨ t.status = .done) ∧ t.mustCancel = false ∧ t.pos = .top ∧
    t.owns = [] ∧ t.holding = [] ∧ t.waitingOn = none

inductive Reachable : State → Prop
  | init {s} : Initial s → Reachable s
  | step {s} (e : Ev) : Reachable s → e.enabled s = true → Reachable (s.apply e)

end Asynkit.Lock
