/-
The small "Python run-time" the statement-level translator `translator/pq2lean.py` targets
(DESIGN §3.3).  Generated code (`Asynkit/Gen/PQ.lean`) is direct functional code: the object state
is threaded explicitly, a method returns `Except Exc ρ × state` (the state at the moment the
exception left the method is kept), every partial list primitive is a `match` on an `Option`.
What is defined here is the meaning of the *Python* primitives, independent of asynkit:

* `Exc`                     — the exception types the translated code can raise
* `Ctl`, `forLoop`          — `for x in <list>: …` with `break`, `return`, `raise` and `else`
* `listPop`, `getItemI`, `setItem`, `setItemI` — `l.pop()`, `l[i]`, `l[i] = v` with Python's
                              negative-index rule for `Int` indices and IndexError as `none`
* `listSort`                — `list.sort()` (stable; insertion sort is the executable definition)
* `GenRes`, `escaped`       — result of driving a generator with `next()`×k and `close()`

Core Lean only.
-/
namespace Asynkit.PyRt

/-- exception types (only the type is modelled, never the message) -/
inductive Exc where
  | indexError
  | valueError
  | generatorExit
  | outOfFuel      -- not a Python exception: a translated `while` loop ran out of its fuel bound
deriving DecidableEq, Repr

/-- outcome of a loop body / of a whole `for` loop:
    `next b`  the iteration (the loop) ran to its end with loop-carried state `b`;
    `brk c`   `break` with the state visible after the loop (carried state and loop targets);
    `ret r`   `return`/`raise` left the enclosing function with final result `r`. -/
inductive Ctl (β γ ρ : Type) where
  | next (b : β)
  | brk (c : γ)
  | ret (r : ρ)

def Ctl.isExit {β γ ρ : Type} : Ctl β γ ρ → Bool
  | .next _ => false
  | _ => true

/-- `for x in xs: body` over a snapshot `xs` of the iterated sequence (the translator rejects
    bodies that mutate the iterated list and then go on iterating). -/
def forLoop {α β γ ρ : Type} : List α → β → (α → β → Ctl β γ ρ) → Ctl β γ ρ
  | [], b, _ => .next b
  | x :: xs, b, f =>
    match f x b with
    | .next b' => forLoop xs b' f
    | .brk c => .brk c
    | .ret r => .ret r

/-- `l.pop()`: last element and the shortened list; `none` = IndexError -/
def listPop {α : Type} (l : List α) : Option (α × List α) :=
  match l.getLast? with
  | none => none
  | some x => some (x, l.dropLast)

/-- `l[i] = v` for a natural index; `none` = IndexError -/
def setItem {α : Type} (l : List α) (i : Nat) (v : α) : Option (List α) :=
  if i < l.length then some (l.set i v) else none

/-- Python's index normalisation: `i` if `0 ≤ i < len`, `len + i` if `-len ≤ i < 0` -/
def normIndex (len : Nat) (i : Int) : Option Nat :=
  if 0 ≤ i then (if i.toNat < len then some i.toNat else none)
  else if (-i).toNat ≤ len then some (len - (-i).toNat) else none

/-- `l[i]` for a Python integer index (negative indices count from the end) -/
def getItemI {α : Type} (l : List α) (i : Int) : Option α :=
  match normIndex l.length i with
  | none => none
  | some n => l[n]?

/-- `l[i] = v` for a Python integer index -/
def setItemI {α : Type} (l : List α) (i : Int) (v : α) : Option (List α) :=
  match normIndex l.length i with
  | none => none
  | some n => some (l.set n v)

/-- `list.sort()` with the elements' `__lt__` (stable) -/
def sortInsert {α : Type} (lt : α → α → Bool) (x : α) : List α → List α
  | [] => [x]
  | y :: ys => if lt y x then y :: sortInsert lt x ys else x :: y :: ys

def listSort {α : Type} (lt : α → α → Bool) : List α → List α
  | [] => []
  | x :: xs => sortInsert lt x (listSort lt xs)

/-- what the driver `k × next()`, then `close()` saw of a generator: the values yielded and the
    exception that came out of `next()` (`none`: exhausted, or closed while suspended) -/
structure GenRes (Y : Type) where
  out : List Y
  exc : Option Exc

/-- `close()` swallows the GeneratorExit it raised; anything else propagates -/
def escaped (e : Exc) : Option Exc :=
  if e = .generatorExit then none else some e

end Asynkit.PyRt
