/-
Kernel interface for the generated translation of `PriorityCondition` / `InterruptCondition`
(`Asynkit/Gen/Cond.lean`, regenerated from /repo/src by translator/cond2lean.py): what the calls made by that
code on asyncio objects and on the waiter queue *mean* on the state of `Model/Cond.lean`.  Stated once, here;
everything else in Gen/Cond.lean is the Python control flow, translated statement by statement.

Trusted (not translated): `asyncio.Future` (`done`, `set_result`), `loop.create_future()`, the abstract lock
(`release()` frees it; `await acquire()` returning normally makes the caller the owner; an exception thrown
into a suspended `acquire()` leaves the lock alone), `tools.PriorityQueue.add/remove/ordereditems` at the level
of its C17 reference model (arrival-ordered list, enumeration by (priority, arrival)), `deque.append/remove`,
`contextlib.asynccontextmanager` (`__aenter__` runs the generator to its `yield`; `__aexit__` resumes it —
normally, or by throwing the exception in — and whatever leaves the generator leaves the `async with`),
`asyncio.Condition.notify_all/wait_for` (stdlib, inherited, not in /repo/src).
Core Lean only.
-/
import Asynkit.Model.Cond

namespace Asynkit.Cond

/-- exception values the translated code handles -/
inductive Exn
  | dlv (e : Nat)   -- a CancelledError-derived instance delivered by the environment, identity `e`
  | runtime         -- `RuntimeError` raised by the code itself
  | attr            -- `AttributeError` (a task without `effective_priority`)
deriving DecidableEq, Repr

/-- `isinstance(x, asyncio.CancelledError)` etc. -/
def Exn.isCancelled : Exn → Bool | .dlv _ => true | _ => false
def Exn.isException : Exn → Bool | .dlv _ => false | _ => true
def Exn.isRuntime : Exn → Bool | .runtime => true | _ => false
def Exn.isAttr : Exn → Bool | .attr => true | _ => false

/-- how a function / coroutine ends -/
inductive Fin | ret | raised (x : Exn)
deriving DecidableEq, Repr

/-- `for x in l: body` with `break`/`continue` -/
inductive LoopCtl (σ : Type) | cont (s : σ) | brk (s : σ)

def forLoop {α σ : Type} : List α → σ → (α → σ → LoopCtl σ) → σ
  | [], s, _ => s
  | a :: as, s, body =>
    match body a s with
    | .cont s' => forLoop as s' body
    | .brk s' => s'

namespace Prim

/-- `self.locked()` -/
def locked (s : State) : Bool := s.owner.isSome

/-- `lock.release()` -/
def lockRelease (s : State) : State := { s with owner := none }

/-- `await lock.acquire()` returned normally in task `j` -/
def lockAcquired (s : State) (j : Nat) : State := { s with owner := some j }

/-- `fut = loop.create_future()` of task `j`'s `wait()` -/
def createFuture (s : State) (j : Nat) : State :=
  { s with w := setW s.w j { s.w j with fut := .pending, thrown := false } }

/-- `self._waiters.add(priority, fut)` (PriorityQueue: next arrival stamp) -/
def waitersAdd (s : State) (j : Nat) (pri : Int) : State :=
  { s with w := setW s.w j { s.w j with pri := pri, arr := s.arrival },
           queue := s.queue ++ [j], arrival := s.arrival + 1 }

/-- `self._waiters.append(fut)` (deque) -/
def waitersAppend (s : State) (j : Nat) : State :=
  { s with w := setW s.w j { s.w j with arr := s.arrival },
           queue := s.queue ++ [j], arrival := s.arrival + 1 }

/-- `self._waiters.remove(fut)` -/
def waitersRemove (s : State) (j : Nat) : State := { s with queue := s.queue.erase j }

/-- `fut.done()` for the future of waiter `t` -/
def futDone (s : State) (t : Nat) : Bool := !isPending s.w t

/-- `fut.set_result(True)` -/
def futSetResult (s : State) (t : Nat) : State := { s with w := setDone s.w t }

/-- `self._waiters.ordereditems()` -/
def orderedItems (s : State) : List Nat := orderedQ .pc s.w s.queue

end Prim
end Asynkit.Cond
