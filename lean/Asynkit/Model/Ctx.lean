/-
C04 — contextvars model: coroutine bodies that read and write ContextVars between suspensions,
`contextvars.Context.run`, and `CoroStart` / `coro_await` / `coro_eager` of
src/asynkit/coroutine.py with, for every entry point, the information whether the inner resume
is wrapped in `context.run` or not.

The model is parametric in `Wraps` (which entry points wrap).  `repaired` is the code as it is
after fixes/C04-context-run.patch (every resume goes through `CoroStart._resume`, which enters
`self.context` whenever it `is not None`); `original` is the tree before that patch (three
paths — GeneratorExit branch of `__await__`, `throw()`, `close()` — plus the "cannot reuse"
send resumed the coroutine outside the context).  The property theorems are about `repaired`;
`original` is kept so that the old failing witnesses stay machine-checked (Props/C04.lean).

MODELLED, NOT VERIFIED: `Context.run(f)` makes the Context's mapping the current one for the
duration of `f`, writes performed by `f` land in that Context, and the caller's current context
is restored untouched (`inCtx`); `copy_context()` returns an independent Context with the same
mapping; the coroutine-object envelope (`ECoro`, as in Model/Proto but threading the current
mapping); generator semantics of `__await__` (PEP 479 included).
Entering a Context that is already entered raises RuntimeError in CPython; drivers here are
sequential and the supplied Context is never the caller's own, so that case does not arise.
-/
import Asynkit.Model.Proto

namespace Asynkit.Ctx
open Asynkit.Proto

abbrev Var := Nat

/-- A contextvars mapping.  `0` = the variable's default (unset). -/
abbrev Mapping := Var → Val

def Mapping.set (m : Mapping) (x : Var) (v : Val) : Mapping := fun y => if y = x then v else m y

/-- One execution segment of the body (from a resume to the next suspension or exit):
    the mapping that was current when it started and the one it left behind. -/
structure Seg where
  seen : Mapping
  left : Mapping

/-- A coroutine body whose behaviour may depend on, and may change, the current contextvars
    mapping: any state type, any deterministic `resume`.  Covers every body over
    {set var, read var, await, try/except/finally, return, raise}. -/
structure EBody where
  σ : Type
  init : σ
  resume : σ → Resume → Mapping → σ × Out × Mapping

/-- Result of a call that may resume the body: new state, outcome, the mapping that is current
    afterwards, and the segments executed. -/
structure R (α : Type) where
  st : α
  out : Out
  m : Mapping
  segs : List Seg

/-- AssertionError (`assert False, "unreachable"` in `__await__`) -/
def assertionErr : Exc := .other 99
/-- RuntimeError("coroutine ignored <exc>") raised by `CoroStart.throw` -/
def rtIgnoredThrow : Nat := 5

namespace ECoro
variable (b : EBody)

/-- run the body for one segment under the current mapping `m` and classify the outcome
    (PEP 479 as in `Proto.Coro.after`). -/
def resumeBody (s : b.σ) (r : Resume) (m : Mapping) : R (CState b.σ) :=
  let res := b.resume s r m
  let seg := [⟨m, res.2.2⟩]
  match res.2.1 with
  | .yield y => ⟨.susp res.1, .yield y, res.2.2, seg⟩
  | .ret v => ⟨.done, .ret v, res.2.2, seg⟩
  | .raise (.stopIter _) => ⟨.done, .raise (.runtime rtRaisedStopIter), res.2.2, seg⟩
  | .raise e => ⟨.done, .raise e, res.2.2, seg⟩

/-- `coro.send(v)` -/
def send (st : CState b.σ) (v : Val) (m : Mapping) : R (CState b.σ) :=
  match st with
  | .created s => if v ≠ 0 then ⟨.created s, .raise .typeErr, m, []⟩ else resumeBody b s (.send v) m
  | .susp s => resumeBody b s (.send v) m
  | .done => ⟨.done, .raise (.runtime rtCannotReuse), m, []⟩

/-- `coro.throw(e)` -/
def throw (st : CState b.σ) (e : Exc) (m : Mapping) : R (CState b.σ) :=
  match st with
  | .created _ => ⟨.done, .raise e, m, []⟩
  | .susp s => resumeBody b s (.throw e) m
  | .done => ⟨.done, .raise (.runtime rtCannotReuse), m, []⟩

/-- `coro.close()` -/
def close (st : CState b.σ) (m : Mapping) : R (CState b.σ) :=
  match st with
  | .created _ => ⟨.done, .ret 0, m, []⟩
  | .done => ⟨.done, .ret 0, m, []⟩
  | .susp s =>
    let r := resumeBody b s (.throw .genExit) m
    match r.out with
    | .yield _ => { r with out := .raise (.runtime rtIgnoredGenExit) }
    | .ret _ => { r with out := .ret 0 }
    | .raise .genExit => { r with out := .ret 0 }
    | .raise _ => r

end ECoro

/-- `CoroStart._resume(method, *args)`: `self.context.run(method, *args)` when the entry point
    wraps and a context was supplied, else a plain call in the caller's context.
    Returns the call's result (its `m` = the *caller's* current mapping afterwards) and the
    supplied Context's mapping afterwards. -/
def inCtx {α : Type} (wrap : Bool) (ctx : Option Mapping) (cur : Mapping) (f : Mapping → R α) :
    R α × Option Mapping :=
  match wrap, ctx with
  | true, some c => let r := f c; ({ r with m := cur }, some r.m)
  | _, _ => (f cur, ctx)

/-- which entry points of CoroStart wrap the inner resume in `context.run` -/
structure Wraps where
  start : Bool     -- `_start`
  send : Bool      -- `__await__`, else-branch
  throw : Bool     -- `__await__`, `except BaseException`
  genexit : Bool   -- `__await__`, `except GeneratorExit` -> `coro.close()`
  reuse : Bool     -- `__await__` entered with `start_result is None` -> `coro.send(None)`
  athrow : Bool    -- `athrow`
  sthrow : Bool    -- `throw`
  sclose : Bool    -- `close`

/-- the code after fixes/C04-context-run.patch -/
def repaired : Wraps := ⟨true, true, true, true, true, true, true, true⟩
/-- the code before it -/
def original : Wraps := ⟨true, true, true, false, false, true, false, false⟩

/-- state of the `__await__` generator currently in use -/
inductive ItSt where
  | fresh | loop | done
deriving Repr, DecidableEq

/-- A `CoroStart` instance (plus the awaiter currently driving it). -/
structure CS (b : EBody) where
  coro : CState b.σ
  sr : Option Out            -- `start_result`: (y, None) = yield y; (None, StopIteration v) = ret v; (None, e) = raise e
  ctx : Option Mapping       -- the supplied Context's mapping
  it : ItSt
  swallow : Bool             -- the awaiter is `aclose()`: GeneratorExit / a return value become `None`
  cont : Bool                -- the awaiter is a `_Continuation` (what `coro_eager` hands to the Task):
                             -- an exception thrown before its first step is delivered to the coroutine

/-- Result of one driver step. -/
structure SR (b : EBody) where
  w : CS b
  out : Out
  cur : Mapping              -- the caller's current mapping afterwards
  segs : List Seg

variable {b : EBody}

/-- `CoroStart.__init__` -> `_start()` -/
def init (W : Wraps) (b : EBody) (ctx : Option Mapping) (cur : Mapping) (cont : Bool := false) : SR b :=
  let p := inCtx W.start ctx cur (ECoro.send b (.created b.init) 0)
  ⟨⟨p.1.st, some p.1.out, p.2, .fresh, false, cont⟩, .ret 0, p.1.m, p.1.segs⟩

/-- the awaiter completes with outcome `o` -/
def finish (w : CS b) (o : Out) : CS b × Out :=
  let o' := if w.swallow then
      (match o with
       | .raise .genExit => .ret 0
       | .ret _ => .ret 0
       | o => o)
    else o
  ({ w with it := .done, swallow := false }, o')

/-- common tail of the send/throw branches of the relay loop -/
def relay (w : CS b) (p : R (CState b.σ) × Option Mapping) : SR b :=
  let w1 : CS b := { w with coro := p.1.st, ctx := p.2 }
  match p.1.out with
  | .yield y => ⟨w1, .yield y, p.1.m, p.1.segs⟩
  | o => let f := finish w1 o; ⟨f.1, f.2, p.1.m, p.1.segs⟩

/-- first `send(None)` on a fresh `__await__` generator: hand out the stored `start_result` -/
def awStart (W : Wraps) (w : CS b) (cur : Mapping) : SR b :=
  match w.sr with
  | none =>
    -- "exhausted coroutine, trigger the 'cannot reuse' error"
    let p := inCtx W.reuse w.ctx cur (ECoro.send b w.coro 0)
    let o : Out := match p.1.out with
      | .yield _ => .raise assertionErr
      | .ret _ => .raise (.runtime rtRaisedStopIter)
      | .raise e => .raise e
    let f := finish { w with coro := p.1.st, ctx := p.2 } o
    ⟨f.1, f.2, p.1.m, p.1.segs⟩
  | some (.yield y) => ⟨{ w with sr := none, it := .loop }, .yield y, cur, []⟩
  | some o => let f := finish { w with sr := none } o; ⟨f.1, f.2, cur, []⟩

/-- a resumption arriving at the `yield` of the relay loop of `__await__` -/
def awLoop (W : Wraps) (w : CS b) (r : Resume) (cur : Mapping) : SR b :=
  match r with
  | .send v => relay w (inCtx W.send w.ctx cur (ECoro.send b w.coro v))
  | .throw e =>
    if e = .genExit then
      -- `except GeneratorExit: self._resume(self.coro.close); raise`
      let p := inCtx W.genexit w.ctx cur (ECoro.close b w.coro)
      let o : Out := match p.1.out with
        | .raise e => .raise e
        | _ => .raise .genExit
      let f := finish { w with coro := p.1.st, ctx := p.2 } o
      ⟨f.1, f.2, p.1.m, p.1.segs⟩
    else relay w (inCtx W.throw w.ctx cur (ECoro.throw b w.coro e))

/-- one `send`/`throw` on the awaiter: the `__await__` generator, a coroutine delegating to it,
    or a `_Continuation` (which steps a fresh generator to its `yield` first, so that a throw
    before the first send reaches the coroutine instead of a generator that has not started) -/
def awResume (W : Wraps) (w : CS b) (r : Resume) (cur : Mapping) : SR b :=
  match w.it with
  | .done =>
    match r with
    | .send _ => ⟨w, .ret 0, cur, []⟩
    | .throw e => ⟨w, .raise e, cur, []⟩
  | .fresh =>
    match r with
    | .throw e =>
      if w.cont then
        let s := awStart W w cur
        match s.out with
        | .yield _ => let t := awLoop W s.w (.throw e) s.cur; { t with segs := s.segs ++ t.segs }
        | _ => s
      else let f := finish w (.raise e); ⟨f.1, f.2, cur, []⟩
    | .send v => if v ≠ 0 then ⟨w, .raise .typeErr, cur, []⟩ else awStart W w cur
  | .loop => awLoop W w r cur

/-- `generator.close()` / `coroutine.close()` on the awaiter -/
def awClose (W : Wraps) (w : CS b) (cur : Mapping) : SR b :=
  match w.it with
  | .done => ⟨w, .ret 0, cur, []⟩
  | _ =>
    if w.it = .fresh ∧ w.cont = false then
      -- a generator / coroutine that has not started: nothing runs
      ⟨{ w with it := .done, swallow := false }, .ret 0, cur, []⟩
    else
      -- throw GeneratorExit in (`_Continuation.close()` is `collections.abc.Coroutine.close`)
      let s := awResume W w (.throw .genExit) cur
      match s.out with
      | .raise .genExit => { s with out := .ret 0 }
      | .ret _ => { s with out := .ret 0 }
      | .yield _ => { s with out := .raise (.runtime rtIgnoredGenExit) }
      | .raise _ => s

/-- first step of `await cs.athrow(e)`: throw inside the context, store the outcome as the new
    `start_result`, then `return await self` (a fresh `__await__`, driven at once). -/
def athrow (W : Wraps) (w : CS b) (e : Exc) (cur : Mapping) : SR b :=
  let p := inCtx W.athrow w.ctx cur (ECoro.throw b w.coro e)
  let w1 : CS b := ⟨p.1.st, some p.1.out, p.2, .fresh, false, false⟩
  let s := awStart W w1 p.1.m
  { s with segs := p.1.segs ++ s.segs }

/-- first step of `await cs.aclose()` -/
def aclose (W : Wraps) (w : CS b) (cur : Mapping) : SR b :=
  match w.sr with
  | none => ⟨w, .ret 0, cur, []⟩
  | some (.yield _) =>
    let s := athrow W w .genExit cur
    match s.out with
    | .yield _ => { s with w := { s.w with swallow := true } }
    | .raise .genExit => { s with out := .ret 0 }
    | .ret _ => { s with out := .ret 0 }
    | .raise _ => s
  | some _ => ⟨{ w with sr := none }, .ret 0, cur, []⟩

/-- `cs.throw(e, tries)` (synchronous) -/
def sthrow (W : Wraps) (w : CS b) (e : Exc) : Nat → Mapping → SR b
  | 0, cur => ⟨w, .raise (.runtime rtIgnoredThrow), cur, []⟩
  | n + 1, cur =>
    let p := inCtx W.sthrow w.ctx cur (ECoro.throw b w.coro e)
    let w1 : CS b := { w with coro := p.1.st, ctx := p.2 }
    match p.1.out with
    | .yield _ =>
      let s := sthrow W w1 e n p.1.m
      { s with segs := p.1.segs ++ s.segs }
    | o => ⟨w1, o, p.1.m, p.1.segs⟩

/-- `cs.close()` (synchronous) -/
def sclose (W : Wraps) (w : CS b) (cur : Mapping) : SR b :=
  let p := inCtx W.sclose w.ctx cur (ECoro.close b w.coro)
  ⟨{ w with coro := p.1.st, ctx := p.2, sr := none }, p.1.out, p.1.m, p.1.segs⟩

/-- Driver operations. -/
inductive Op where
  | awSend (v : Val)
  | awThrow (e : Exc)
  | awClose
  | newIt                       -- `cs.__await__()` again (a second awaiter)
  | athrow (e : Exc)
  | aclose
  | sthrow (e : Exc) (tries : Nat)
  | sclose
  | callerSet (x : Var) (v : Val)   -- the caller writes one of its own variables
deriving Repr

def step (W : Wraps) (w : CS b) (op : Op) (cur : Mapping) : SR b :=
  match op with
  | .awSend v => awResume W w (.send v) cur
  | .awThrow e => awResume W w (.throw e) cur
  | .awClose => awClose W w cur
  | .newIt => ⟨{ w with it := .fresh, swallow := false, cont := false }, .ret 0, cur, []⟩
  | .athrow e => athrow W w e cur
  | .aclose => aclose W w cur
  | .sthrow e n => sthrow W w e n cur
  | .sclose => sclose W w cur
  | .callerSet x v => ⟨w, .ret 0, cur.set x v, []⟩

/-- what the caller itself does to its own mapping -/
def callerEffect (cur : Mapping) : Op → Mapping
  | .callerSet x v => cur.set x v
  | _ => cur

/-- Result of a whole run. -/
structure Run (b : EBody) where
  w : CS b
  cur : Mapping
  segs : List Seg
  outs : List Out

def runFrom (W : Wraps) (w : CS b) (cur : Mapping) : List Op → Run b
  | [] => ⟨w, cur, [], []⟩
  | op :: ops =>
    let s := step W w op cur
    let r := runFrom W s.w s.cur ops
    { r with segs := s.segs ++ r.segs, outs := s.out :: r.outs }

/-- `CoroStart(coro, context=ctx)` followed by a driver sequence -/
def run (W : Wraps) (b : EBody) (ctx : Option Mapping) (cur : Mapping) (ops : List Op)
    (cont : Bool := false) : Run b :=
  let s := init W b ctx cur cont
  let r := runFrom W s.w s.cur ops
  { r with segs := s.segs ++ r.segs }

/-- `coro_eager(coro)`: `CoroStart(coro, context=copy_context())` — the supplied mapping is a copy
    of the caller's current one, taken at the call — continued by a `_Continuation`. -/
def eagerRun (W : Wraps) (b : EBody) (cur : Mapping) (ops : List Op) : Run b :=
  run W b (some cur) cur ops true

/-! ### `coro_await` as a body, and native `await` with an environment (reference) -/

/-- PEP-380 delegation with the current mapping threaded through: the body of
    `async def ref(c): return await c`. -/
def nativeAwaitE (b : EBody) : EBody where
  σ := CState b.σ
  init := .created b.init
  resume st r m :=
    match r with
    | .send v => let x := ECoro.send b st v m; (x.st, x.out, x.m)
    | .throw e =>
      if e = .genExit then
        let x := ECoro.close b st m
        match x.out with
        | .ret _ => (x.st, .raise .genExit, x.m)
        | o => (x.st, o, x.m)
      else let x := ECoro.throw b st e m; (x.st, x.out, x.m)

/-- the body of `coro_await(coro, context=None)`: first resume constructs the CoroStart and
    awaits it; later resumes reach the `__await__` generator. -/
def coroAwaitNone (W : Wraps) (b : EBody) : EBody where
  σ := Option (CS b)
  init := none
  resume st r m :=
    match st with
    | none =>
      let s := init W b none m
      let t := awStart W s.w s.cur
      (some t.w, t.out, t.cur)
    | some w => let t := awResume W w r m; (some t.w, t.out, t.cur)

/-- drive a body with an environment; stop after the first non-yield -/
def etrace {σ : Type} (stepf : σ → Resume → Mapping → σ × Out × Mapping) :
    σ → List Resume → Mapping → List (Out × Mapping)
  | _, [], _ => []
  | s, r :: rs, m =>
    match stepf s r m with
    | (s', .yield y, m') => (.yield y, m') :: etrace stepf s' rs m'
    | (_, o, m') => [(o, m')]

/-! ### script bodies (used by the correspondence driver and the non-vacuity examples) -/

inductive Act where
  | set (x : Var) (v : Val)
  | get (x : Var)
deriving Repr, Inhabited

inductive Term where
  | await (tok : Int) (next : Nat)
  | ret (v : Val)
  | raise (e : Exc)
  | reraise
deriving Repr, Inhabited

structure Entry where
  acts : List Act
  term : Term
deriving Repr, Inhabited

/-- one suspension point (or the start, index 0): what the body does when resumed there by
    send / by a thrown exception / by GeneratorExit -/
structure PState where
  onSend : Entry
  onThrow : Entry
  onExit : Entry
deriving Repr, Inhabited

/-- effect of a segment's actions on the current mapping -/
def runActs : List Act → Mapping → Mapping
  | [], m => m
  | .set x v :: as, m => runActs as (m.set x v)
  | .get _ :: as, m => runActs as m

/-- the values the segment's `get`s read (in order) when it starts under mapping `m` -/
def readsOf : List Act → Mapping → List (Var × Val)
  | [], _ => []
  | .set x v :: as, m => readsOf as (m.set x v)
  | .get x :: as, m => (x, m x) :: readsOf as m

def entryOf (p : List PState) (pc : Nat) (r : Resume) : Entry :=
  let st := p.getD pc default
  match r with
  | .send _ => st.onSend
  | .throw .genExit => st.onExit
  | .throw _ => st.onThrow

/-- the body described by a script; its state is the index of the suspension point -/
def scriptBody (p : List PState) : EBody where
  σ := Nat
  init := 0
  resume pc r m :=
    let e := entryOf p pc r
    let m' := runActs e.acts m
    match e.term with
    | .await t n => (n, .yield (.tok t), m')
    | .ret v => (pc, .ret v, m')
    | .raise x => (pc, .raise x, m')
    | .reraise =>
      match r with
      | .throw x => (pc, .raise x, m')
      | .send _ => (pc, .ret 0, m')

end Asynkit.Ctx
