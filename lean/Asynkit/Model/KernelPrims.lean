/-
The primitives of the Kernel model that `interrupt.task_throw`, `task_interrupt`,
`scheduling._task_reinsert` and `task_switch` use, under the names the generated translation
(`Asynkit/Gen/Interrupt.lean`, produced by translator/interrupt2lean.py) refers to.  Each is one
asyncio / asynkit operation on the Kernel state.
-/
import Asynkit.Model.Kernel

namespace Asynkit.Kernel

/-- the ways the translated functions can raise -/
inductive ThrowErr where
  | typeError          -- `exception` is not a BaseException (cannot happen in the model: `Exc` is one)
  | done               -- RuntimeError("cannot interrupt task which is done")
  | cancelled          -- RuntimeError("cannot interrupt a cancelled task")
  | self               -- RuntimeError("cannot interrupt self")
  | valueError         -- ValueError("Task is not scheduled")
  | assertion          -- an `assert` of the function failed
  | cTaskNotModelled   -- the C-task path (c_task_reschedule) is outside the model
  deriving DecidableEq, Repr

/-- where the synchronous prefix of a coroutine ends -/
inductive Susp where
  | sleep0             -- `await asyncio.sleep(0)`  (a bare yield)
  | sleepInsert        -- `await _sleep_insert(loop, pos)`
  deriving DecidableEq, Repr

/-- `isinstance(exception, BaseException)`: every `Exc` of the model is an exception instance -/
def isBaseException (_ : Exc) : Bool := true

/-- `_have_context = sys.version_info > (3, 8)`: true on every supported interpreter ≥ 3.9 -/
def haveContext : Bool := true

/-- `getattr(task, "_Task__step", None)`: only Python tasks expose the method -/
def stepMethod (s : State) (t : TaskId) : Option TaskId := if (s.tasks t).py then some t else none

/-- `Future.done()` -/
def futDone (s : State) (f : FutId) : Bool := (s.futs f).st != .pending

/-- `Future.cancelled()` -/
def futCancelled (s : State) (f : FutId) : Bool := (s.futs f).st == .cancelled

/-- `Future.remove_done_callback(cb)`: removes every equal callback -/
def removeDoneCallback (s : State) (f : FutId) (c : Cb) : State :=
  setFut s f { (s.futs f) with cbs := (s.futs f).cbs.filter (· != c) }

/-- `loop.queue_find(loop.task_key(task), remove=True)`: the handle (or None) and the new queue -/
def queueFindRemove (s : State) (t : TaskId) : Option Handle × State :=
  match popLast (isOf t) s.ready with
  | some (h, r) => (some h, { s with ready := r })
  | none => (none, s)

/-- `task._fut_waiter = w` -/
def setFutWaiter (s : State) (t : TaskId) (w : Option FutId) : State :=
  setTask s t { (s.tasks t) with futWaiter := w }

/-- `loop.queue_insert_pos(handle, pos)` (`deque.insert` clamps the position) -/
def queueInsertPos (s : State) (h : Handle) (pos : Nat) : State :=
  { s with ready := s.ready.insertIdx (min pos s.ready.length) h }

end Asynkit.Kernel
