/-
`asyncio.Lock` (CPython `asyncio/locks.py`) as a small-step machine, and the kernel interface for the generated
translation of that file (`Asynkit/Gen/AsyncioLocks.lean`, regenerated from the *running interpreter's*
locks.py by translator/asynciolocks2lean.py).

State of one lock: `_locked`, the deque `_waiters` (`None` until first needed) of the futures of the tasks
suspended in `acquire()` — a task has at most one `acquire()` in flight, so a future is named by its task —,
and each such future's state.  `Lemmas/GenEqC14Std.lean` proves the generated segments equal to the functions
`acquireEntry / acquireResume / release / wakeUpFirst` below; `Lemmas/C14StdLock.lean` proves that the
transition system built from them refines the abstract lock of `Model/Cond.lean` (`owner : Option Nat`: an
acquire completes only while nobody owns the lock and makes the caller the owner; a raising acquire leaves the
lock alone; release frees it) and hands the lock over in FIFO order.

Trusted (not translated): `asyncio.Future` (`done/cancelled/set_result`, `Task.cancel()` of a task blocked on a
pending future cancels that future), `collections.deque.append/remove/iteration`.  Core Lean only.
-/
import Asynkit.Model.Cond

namespace Asynkit.StdLock
open Asynkit.Cond (Fut Resume)

structure LS where
  locked   : Bool := false
  hasDeque : Bool := false            -- `self._waiters is not None`
  waiters  : List Nat := []           -- `self._waiters`, FIFO (tasks whose future is queued)
  fut      : Nat → Fut := fun _ => .pending

/-- exceptions the lock code handles: a delivered CancelledError-derived instance, its own RuntimeError,
`StopIteration` out of `next(iter(..))` -/
inductive Exn | dlv (e : Nat) | runtime | stopIteration
deriving DecidableEq, Repr

def Exn.isCancelled : Exn → Bool | .dlv _ => true | _ => false
def Exn.isStopIteration : Exn → Bool | .stopIteration => true | _ => false

inductive Fin | ret (v : Bool) | raised (x : Exn)
deriving DecidableEq, Repr

namespace Prim
def isLocked (s : LS) : Bool := s.locked
def setLocked (s : LS) (b : Bool) : LS := { s with locked := b }
/-- `self._waiters is None` -/
def waitersIsNone (s : LS) : Bool := !s.hasDeque
/-- `self._waiters = collections.deque()` -/
def initWaiters (s : LS) : LS := { s with hasDeque := true, waiters := [] }
/-- truth value of `self._waiters` (None or empty → False) -/
def waitersNonEmpty (s : LS) : Bool := s.hasDeque && !s.waiters.isEmpty
/-- `all(w.cancelled() for w in self._waiters)` -/
def allCancelled (s : LS) : Bool := s.waiters.all fun t => s.fut t == .cancelled
/-- `fut = loop.create_future()` of task `j`'s acquire -/
def createFuture (s : LS) (j : Nat) : LS := { s with fut := fun t => if t = j then .pending else s.fut t }
def waitersAppend (s : LS) (j : Nat) : LS := { s with waiters := s.waiters ++ [j] }
def waitersRemove (s : LS) (j : Nat) : LS := { s with waiters := s.waiters.erase j }
/-- `next(iter(self._waiters))`: `none` = StopIteration -/
def firstWaiter (s : LS) : Option Nat := s.waiters.head?
def futDone (s : LS) (t : Nat) : Bool := s.fut t != .pending
def futSetResult (s : LS) (t : Nat) : LS := { s with fut := fun u => if u = t then .done else s.fut u }
end Prim

/-! ### the machine (what `Lemmas/GenEqC14Std.lean` proves the generated code to be) -/

/-- `Lock._wake_up_first()`: the *head* of the queue, if its future is still pending, is told to wake up -/
def wakeUpFirst (s : LS) : LS :=
  match s.waiters with
  | [] => s
  | t :: _ => if s.hasDeque && s.fut t == .pending then { s with fut := fun u => if u = t then .done else s.fut u } else s

/-- outcome of the first segment of `acquire()` -/
inductive AcqEntry | took | suspended
deriving DecidableEq, Repr

/-- `Lock.acquire()` up to its await: the fast path takes a free lock when nobody (not cancelled) is queued -/
def acquireEntry (s : LS) (j : Nat) : LS × AcqEntry :=
  if !s.locked && (!s.hasDeque || s.waiters.all fun t => s.fut t == .cancelled) then
    ({ s with locked := true }, .took)
  else
    let s1 : LS := if s.hasDeque then s else { s with hasDeque := true, waiters := [] }
    ({ s1 with fut := (fun t => if t = j then .pending else s1.fut t), waiters := s1.waiters ++ [j] }, .suspended)

/-- `await fut` of `acquire()` resumed: normally → `finally: remove`, `self._locked = True`, `return True`;
by an exception → `finally: remove`, `if not self._locked: self._wake_up_first()`, re-raise -/
def acquireResume (s : LS) (j : Nat) (r : Resume) : LS × Fin :=
  let s1 : LS := { s with waiters := s.waiters.erase j }
  match r with
  | .ok => ({ s1 with locked := true }, .ret true)
  | .exc e => (if s1.locked then s1 else wakeUpFirst s1, .raised (.dlv e))

/-- `Lock.release()` -/
def release (s : LS) : LS × Fin :=
  if s.locked then (wakeUpFirst { s with locked := false }, .ret false) else (s, .raised .runtime)

/-! ### the lock among its users: transition system with the abstract owner as ghost -/

structure Sys where
  ls      : LS := {}
  owner   : Option Nat := none              -- ghost: the abstract lock of Model/Cond.lean
  blocked : Nat → Bool := fun _ => false    -- task is suspended inside `acquire()`

inductive Ev
  | acquire (j : Nat)                 -- task j calls `await lock.acquire()`
  | resume (j : Nat) (r : Resume)     -- its `await fut` is resumed (normally only once the future is set)
  | release (j : Nat)                 -- the owner calls `lock.release()`
  | cancel (j : Nat)                  -- `Task.cancel()` of a task blocked in acquire(): its pending future is cancelled
deriving Repr

def setB (b : Nat → Bool) (j : Nat) (v : Bool) : Nat → Bool := fun t => if t = j then v else b t

def sysStep (s : Sys) : Ev → Option Sys
  | .acquire j =>
    if s.blocked j = false ∧ s.owner ≠ some j then
      match acquireEntry s.ls j with
      | (ls', .took) => some { s with ls := ls', owner := some j }
      | (ls', .suspended) => some { s with ls := ls', blocked := setB s.blocked j true }
    else none
  | .resume j r =>
    if s.blocked j = true ∧ (r = .ok → s.ls.fut j = .done) then
      some { ls := (acquireResume s.ls j r).1,
             owner := (match r with | .ok => some j | .exc _ => s.owner),
             blocked := setB s.blocked j false }
    else none
  | .release j =>
    if s.owner = some j then some { s with ls := (release s.ls).1, owner := none } else none
  | .cancel j =>
    if s.blocked j = true then
      let f := s.ls.fut
      some { s with ls := { s.ls with fut := fun t => if t = j ∧ f j = Fut.pending then Fut.cancelled else f t } }
    else none

def sysRun (s : Sys) : List Ev → Option Sys
  | [] => some s
  | e :: es => match sysStep s e with
    | none => none
    | some s' => sysRun s' es

def SysReachable (s : Sys) : Prop := ∃ es, sysRun {} es = some s

/-- what the abstract lock of `Model/Cond.lean` allows (its events `acq`/`acqImm`/`acqOk`, `acqExc`/`acqBlock`,
`rel` seen on `owner` alone) -/
def AbsStep (o o' : Option Nat) : Ev → Prop
  | .acquire j => (o = none ∧ o' = some j) ∨ o' = o      -- taken at once (only if free), or queued
  | .resume j .ok => o = none ∧ o' = some j               -- a queued acquire completes only while the lock is free
  | .resume _ (.exc _) => o' = o                          -- a raising acquire leaves the lock alone
  | .release j => o = some j ∧ o' = none
  | .cancel _ => o' = o

end Asynkit.StdLock
