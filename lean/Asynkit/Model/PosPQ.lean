/-
Model of `asynkit.experimental.priority.PriorityValue` and `PosPriorityQueue`
(src/asynkit/experimental/priority.py), operation for operation, over `Model/PQ`.

Priorities are exact rationals (`Rat`).  `gp` is the queue's `get_priority` callback and
`draw n` is the value `random.random()` returns when the entry with sequence number `n` is
considered for a boost; both are parameters, so theorems quantify over them.
-/
import Asynkit.Model.PQ

namespace Asynkit

/-- `PriorityValue(base_priority, inserted_at, priority_boost=0.0, priority_class=1)` -/
structure PV where
  base : Rat
  insertedAt : Nat
  boost : Rat := 0
  cls : Nat := 1
deriving Repr, BEq, DecidableEq

instance : Inhabited PV := ⟨⟨0, 0, 0, 1⟩⟩

/-- `PriorityValue.priority()` -/
def PV.priority (p : PV) : Rat := p.base + p.boost

/-- `PriorityValue.__lt__` -/
def PV.lt (a b : PV) : Bool :=
  if a.cls != b.cls then decide (a.cls < b.cls) else decide (a.priority < b.priority)

structure PosPQ where
  q : PQ PV := PQ.empty
  lastMaint : Nat := 0
  nIns : Nat := 0
  nRem : Nat := 0
  factor : Rat := 6 / 5          -- priority_boost_factor = 1.2
deriving Repr

namespace PosPQ
variable (H : HeapLib (Entry PV))

def len (s : PosPQ) : Nat := s.q.pq.length

/-- min and max of `priority()` over the regular (class ≠ 0) entries, array order. -/
def regularMinMax : List (Entry PV) → Option (Rat × Rat)
  | [] => none
  | e :: es =>
    if e.pri.cls == 0 then regularMinMax es
    else
      let p := e.pri.priority
      match regularMinMax es with
      | none => some (p, p)
      | some (lo, hi) => some (min p lo, max p hi)

/-- `compute_priority_boost(priority, min_pri, max_pri)` with the random draw `r` -/
def computeBoost (factor priority minPri : Rat) (r : Rat) : Rat :=
  r * ((minPri - priority) * factor)

/-- who is a candidate for a boost in a maintenance round: a regular entry (`priority_class != 0`)
    inserted more than a queue length ago (`inserted_at < limit`, the `stragglers` list) whose base
    priority is above `min_pri` (the test in `boost_stragglers`) -/
def candidate (minPri : Rat) (limit : Nat) (e : Entry PV) : Bool :=
  e.pri.cls != 0 && decide (e.pri.insertedAt < limit) && decide (e.pri.base > minPri)

/-- what `boost_stragglers` does to one entry.  `draw n` is the value `random.random()` returned
    when the entry with sequence number `n` was considered (sequence numbers are distinct, so any
    sequence of random outcomes is such a function and vice versa). -/
def boostOne (factor minPri : Rat) (limit : Nat) (draw : Nat → Rat) (e : Entry PV) : Entry PV :=
  if candidate minPri limit e then
    let pb := computeBoost factor e.pri.base minPri (draw e.seq)
    if pb != 0 then { e with pri := { e.pri with boost := pb } } else e
  else e

/-- `do_maintenance` + `boost_stragglers` as a state transformer: one pass over the array; `refresh()`
    (heapify) only when some boost was applied (`n_boosted > 0`).  Its return value is
    `maintenanceDone` below. -/
def doMaintenance (s : PosPQ) (draw : Nat → Rat) : PosPQ :=
  if s.factor == 0 then s else
  match regularMinMax s.q.pq with
  | none => s
  | some (minPri, _) =>
    let limit := s.nIns - s.len
    let boosted := s.q.pq.any (fun e =>
      candidate minPri limit e && computeBoost s.factor e.pri.base minPri (draw e.seq) != 0)
    if boosted then
      { s with q := ⟨s.q.seq, H.heapify (Entry.lt PV.lt) (s.q.pq.map (boostOne s.factor minPri limit draw))⟩ }
    else s

/-- a long-waiting regular entry: `priority_class != 0` and `inserted_at < limit` (what
    `do_maintenance` puts on its `stragglers` list) -/
def isStraggler (limit : Nat) (e : Entry PV) : Bool :=
  e.pri.cls != 0 && decide (e.pri.insertedAt < limit)

/-- the value `do_maintenance()` returns, as a function of the state it is called in: `False`
    exactly when the boost factor is non-zero, some regular entry is long-waiting and there are fewer
    than two regular entries (`n_regular < 2`): the straggler has nothing to be compared with, the
    round is to be repeated at the next insertion. -/
def maintenanceDone (s : PosPQ) : Bool :=
  s.factor == 0 ||
    !(s.q.pq.any (isStraggler (s.nIns - s.len)) && decide (s.q.pq.countP (fun e => e.pri.cls != 0) < 2))

/-- `update_counters(inserted)`: the maintenance mark only advances when `do_maintenance()` reports
    the round as done -/
def updateCounters (s : PosPQ) (inserted : Bool) (draw : Nat → Rat) : PosPQ :=
  if inserted then
    let s := { s with nIns := s.nIns + 1 }
    let thr := min s.nIns s.nRem
    let limit := max 10 s.len + s.lastMaint
    if thr > limit then
      if maintenanceDone s then { doMaintenance H s draw with lastMaint := thr } else doMaintenance H s draw
    else s
  else
    if s.len > 0 then { s with nRem := s.nRem + 1 }
    else { s with nIns := 0, nRem := 0, lastMaint := 0 }

def appendPri (s : PosPQ) (x : Nat) (p : Rat) (draw : Nat → Rat) : PosPQ :=
  let pv : PV := { base := p, insertedAt := s.nIns }
  updateCounters H { s with q := s.q.add H PV.lt pv x } true draw

def append (s : PosPQ) (gp : Nat → Rat) (x : Nat) (draw : Nat → Rat) : PosPQ :=
  appendPri H s x (gp x) draw

/-- `popleft()`; `none` = IndexError (queue empty, counters untouched). -/
def popleft (s : PosPQ) (draw : Nat → Rat) : Option (Nat × PosPQ) :=
  match s.q.popEntry H PV.lt with
  | none => none
  | some (e, q') => some (e.obj, updateCounters H { s with q := q' } false draw)

/-- the `while position > len(promoted): promoted.append(self.popleft())` loop -/
def promote (draw : Nat → Rat) : Nat → PosPQ → List Nat → PosPQ × List Nat
  | 0, s, acc => (s, acc)
  | n + 1, s, acc =>
    match popleft H s draw with
    | none => (s, acc)
    | some (x, s') => promote draw n s' (acc ++ [x])

def addAll (pv : PV) : PQ PV → List Nat → PQ PV
  | q, [] => q
  | q, x :: xs => addAll pv (q.add H PV.lt pv x) xs

/-- the priority value `insert` gives to the promoted entries and the new one: class 0, one step
    ahead of a positional head (the peek only happens when the promotion loop finished without
    IndexError, `done`). -/
def insertPV (s1 : PosPQ) (done : Bool) : PV :=
  { base :=
      if done then
        match s1.q.peek with
        | some e => if e.pri.cls == 0 then e.pri.base - 1 else 0
        | none => 0
      else 0
    insertedAt := s1.nIns
    cls := 0 }

/-- `insert(position, obj)` -/
def insert (s : PosPQ) (position : Nat) (x : Nat) (draw : Nat → Rat) : PosPQ :=
  let r := promote H draw position s []
  let pv := insertPV r.1 (r.2.length == position)
  updateCounters H { r.1 with q := addAll H pv r.1.q (r.2 ++ [x]) } true draw

/-- `remove(obj)`; `none` = ValueError -/
def remove (s : PosPQ) (x : Nat) (draw : Nat → Rat) : Option PosPQ :=
  match s.q.remove H PV.lt x with
  | none => none
  | some (_, q') => some (updateCounters H { s with q := q' } false draw)

/-- `find(key, remove)` — note: no counter update. -/
def find (s : PosPQ) (key : Nat → Bool) (rm : Bool) : Option Nat × PosPQ :=
  let r := s.q.find H PV.lt key rm
  (r.1.map (·.obj), { s with q := r.2 })

/-- `reschedule(key, new_priority)`: positional (class-0) entries keep their place. -/
def reschedule (s : PosPQ) (key : Nat → Bool) (np : Rat) : Option Nat × PosPQ :=
  match (s.q.find H PV.lt key false).1 with
  | none => (none, s)
  | some e =>
    if e.pri.cls == 0 then (some e.obj, s)
    else
      let pv : PV := { base := np, insertedAt := s.nIns }
      let r := s.q.reschedule H PV.lt key pv
      (r.1, { s with q := r.2 })

/-- `reschedule_all()`: recompute the base priority of every regular entry, keep sequence numbers -/
def rescheduleAll (s : PosPQ) (gp : Nat → Rat) : PosPQ :=
  let l := s.q.pq.map (fun e => if e.pri.cls != 0 then { e with pri := { e.pri with base := gp e.obj } } else e)
  { s with q := ⟨s.q.seq, H.heapify (Entry.lt PV.lt) l⟩ }

/-- `__iter__`: sorts `_pq` in place, yields objects in pop order -/
def iter (s : PosPQ) : List Nat × PosPQ :=
  let q := s.q.sort PV.lt
  (q.pq.map (·.obj), { s with q := q })

def clear (s : PosPQ) : PosPQ := { s with q := PQ.clear s.q }

def drain : Nat → PosPQ → (Nat → Rat) → List Nat
  | 0, _, _ => []
  | n + 1, s, draw =>
    match popleft H s draw with
    | none => []
    | some (x, s') => x :: drain n s' draw

end PosPQ
end Asynkit
