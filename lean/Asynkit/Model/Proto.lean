/-
The await protocol: abstract coroutine bodies, CPython's coroutine-object envelope around them,
and PEP-380 delegation (`await`) as the reference semantics.

"For every coroutine body" is rendered as: for every `Body` — any state type `σ`, any initial
state, any deterministic `resume : σ → Resume → σ × Out`.  No grammar of bodies is assumed, so
nesting depth, handler shapes and `finally` placement are all covered at once.

MODELLED, NOT VERIFIED (CPython behaviour, validated against the interpreter by the
correspondence streams): `Coro.send/throw/close` below are genobject.c's rules for coroutine
objects; `nativeAwait` is PEP 380.
-/
namespace Asynkit.Proto

/-- Values.  `0` stands for Python's `None` (the harness never uses a genuine 0). -/
abbrev Val := Int

/-- Exception kinds the protocol layer distinguishes; everything else is `other id`
    (E1, E2, KeyboardInterrupt-like BaseExceptions, …). Identity is the constructor + payload. -/
inductive Exc where
  | genExit                 -- GeneratorExit
  | stopIter (v : Val)      -- StopIteration(v) raised *by user code*
  | stopAsync               -- StopAsyncIteration
  | cancelled (id : Nat)    -- CancelledError and subclasses (interrupts); id = instance
  | runtime (tag : Nat)     -- RuntimeError; tag names the fixed CPython/asynkit phrase
  | typeErr                 -- TypeError
  | syncAbort               -- asynkit.SynchronousAbort
  | oobData (d : Val)       -- asynkit.OOBData(d)
  | other (id : Nat)
deriving Repr, DecidableEq, Inhabited

/-- fixed RuntimeError phrases -/
def rtIgnoredGenExit : Nat := 1      -- "coroutine ignored GeneratorExit"
def rtCannotReuse : Nat := 2         -- "cannot reuse already awaited coroutine"
def rtRaisedStopIter : Nat := 3      -- "coroutine raised StopIteration" (PEP 479)
def rtAlreadyRunning : Nat := 4      -- "... already running / already executing"

/-- Objects a coroutine yields to whoever drives it. -/
inductive Y where
  | bare                    -- `yield` of None (asyncio.sleep(0))
  | fut (id : Nat)          -- a Future (identity)
  | tok (n : Int)           -- a token-yielding awaitable used by the harness
deriving Repr, DecidableEq, Inhabited

inductive Resume where
  | send (v : Val)
  | throw (e : Exc)
deriving Repr, DecidableEq, Inhabited

inductive Out where
  | yield (y : Y)
  | ret (v : Val)           -- `return v`  (StopIteration(v) at the object level)
  | raise (e : Exc)
deriving Repr, DecidableEq, Inhabited

/-- A coroutine body: any deterministic resumable computation.  `resume` is only ever applied
    to states reached by running the body; after `ret`/`raise` the state is never used again. -/
structure Body where
  σ : Type
  init : σ
  resume : σ → Resume → σ × Out

/-- CPython coroutine-object states (no `running`: drivers here are sequential; re-entrancy is
    modelled where a property needs it). -/
inductive CState (σ : Type) where
  | created (s : σ)
  | susp (s : σ)
  | done
deriving Repr

namespace Coro
variable (b : Body)

def start : CState b.σ := .created b.init

/-- classify one resumption of the body: PEP 479 turns a user StopIteration into RuntimeError. -/
def after (r : b.σ × Out) : CState b.σ × Out :=
  match r.2 with
  | .yield y => (.susp r.1, .yield y)
  | .ret v => (.done, .ret v)
  | .raise (.stopIter _) => (.done, .raise (.runtime rtRaisedStopIter))
  | .raise e => (.done, .raise e)

/-- `coro.send(v)` -/
def send (st : CState b.σ) (v : Val) : CState b.σ × Out :=
  match st with
  | .created s => if v ≠ 0 then (.created s, .raise .typeErr) else after b (b.resume s (.send v))
  | .susp s => after b (b.resume s (.send v))
  | .done => (.done, .raise (.runtime rtCannotReuse))

/-- `coro.throw(e)` -/
def throw (st : CState b.σ) (e : Exc) : CState b.σ × Out :=
  match st with
  | .created _ => (.done, .raise e)          -- never started: finished without running the body
  | .susp s => after b (b.resume s (.throw e))
  | .done => (.done, .raise (.runtime rtCannotReuse))

/-- `coro.close()`; `Out.ret 0` = returned None. -/
def close (st : CState b.σ) : CState b.σ × Out :=
  match st with
  | .created _ => (.done, .ret 0)
  | .done => (.done, .ret 0)
  | .susp s =>
    match after b (b.resume s (.throw .genExit)) with
    | (st', .yield _) => (st', .raise (.runtime rtIgnoredGenExit))
    | (st', .ret _) => (st', .ret 0)
    | (st', .raise .genExit) => (st', .ret 0)
    | (st', .raise e) => (st', .raise e)

end Coro

/-- PEP-380 delegation: the body of `async def ref(c): return await c` for a fresh `c`.
    Its state is the state of `c`. -/
def nativeAwait (b : Body) : Body where
  σ := CState b.σ
  init := Coro.start b
  resume st r :=
    match r with
    | .send v => Coro.send b st v
    | .throw .genExit =>
      match Coro.close b st with
      | (st', .ret _) => (st', .raise .genExit)
      | (st', o) => (st', o)
    | .throw e => Coro.throw b st e

/-- Drive a step function over a list of resumptions; stop after the first non-yield. -/
def trace {σ : Type} (step : σ → Resume → σ × Out) : σ → List Resume → List Out
  | _, [] => []
  | s, r :: rs =>
    match step s r with
    | (s', .yield y) => .yield y :: trace step s' rs
    | (_, o) => [o]

end Asynkit.Proto
