/-
Wait-for graph of PriorityTasks and PriorityLocks, and the two mutually recursive
`effective_priority` methods of src/asynkit/experimental/priority.py:

  PriorityTask.effective_priority (priority.py:359-364)
      p1 = (lock.effective_priority() for lock in self._holding_locks)
      lockmin = min((p for p in p1 if p is not None), default=None)
      return self.priority() if lockmin is None else min(self.priority(), lockmin)
  PriorityLock.effective_priority (priority.py:219-234)
      None if no waiters, else min over the waiters of task.effective_priority()
      (a task without that method counts as 0)

Python recurses without bound; the model recurses on a fuel parameter.  `Asynkit.C11`
proves that on acyclic graphs (locks taken in a fixed order) every fuel ≥ the rank of the
node gives the same value, so the driver's fuel `2 * (|tasks| + |locks|) + 1` is exact there.
A task that is not a PriorityTask is a node with `own = 0` and `holding = []` (its
`add_owned_lock` raises AttributeError, which `_take_lock` ignores).

Core Lean only (no Mathlib).
-/
namespace Asynkit.PrioGraph

structure Graph where
  own : Nat → Rat                 -- PriorityTask.priority()  (0 for plain tasks)
  holding : Nat → List Nat        -- PriorityTask._holding_locks
  waiters : Nat → List Nat        -- tasks queued in PriorityLock._waiters

/-- `min(x, default=None)` over a list -/
def minList : List Rat → Option Rat
  | [] => none
  | x :: xs => some (xs.foldl min x)

mutual
/-- PriorityTask.effective_priority, `fuel` levels of recursion -/
def effT (g : Graph) : Nat → Nat → Rat
  | 0, t => g.own t
  | f + 1, t => ((g.holding t).filterMap (effL g f)).foldl min (g.own t)
/-- PriorityLock.effective_priority -/
def effL (g : Graph) : Nat → Nat → Option Rat
  | 0, _ => none
  | f + 1, l => minList ((g.waiters l).map (effT g f))
end

/-- `u` waits on a lock held by `v` (one edge of the wait-for relation between tasks) -/
def WaitsOn (g : Graph) (u v : Nat) : Prop := ∃ l, l ∈ g.holding v ∧ u ∈ g.waiters l

/-- reflexive-transitive closure: `u` transitively waits on locks held by `t` (t included) -/
inductive Reaches (g : Graph) : Nat → Nat → Prop
  | refl (t) : Reaches g t t
  | step {u v t} : WaitsOn g u v → Reaches g v t → Reaches g u t

/-- Acyclicity witnessed by a rank: a lock ranks below its holder, a waiter below the lock.
    (Locks acquired in a fixed order give such a rank; see the example in Props/C11.) -/
structure Ranked (g : Graph) where
  rT : Nat → Nat
  rL : Nat → Nat
  hold : ∀ t l, l ∈ g.holding t → rL l < rT t
  wait : ∀ l w, w ∈ g.waiters l → rT w < rL l

end Asynkit.PrioGraph
