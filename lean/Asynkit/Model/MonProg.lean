/-
A small concrete body language (the one `harness/monprog.py` renders as Python source) and its
interpretation as model bodies (`PBody`, from which the drivers derive `MBody` / `UB`).
It is only a *source of bodies* for the correspondence runs: the theorems quantify over every
`MBody`/`PBody`/`UB`, not over this syntax.

statements:  log n | await tok(t) | x = await M[m].oob(d) | r = await M[m].<op>(child) |
             raise E | return v | try/except*/finally | await (nested coroutine call)
-/
import Asynkit.Model.Monitor

namespace Asynkit.MonProg
open Asynkit.Proto (Val Exc Resume)
open Asynkit.Monitor

/-- `except` clauses the generated programs use -/
inductive ExcClass where
  | genExit | cancelled | e1 | e2 | runtime | oobData | stopAsync | exception | baseException
deriving Repr, DecidableEq, Inhabited

/-- Python's `isinstance(e, cls)` for the harness's exception zoo:
    E1, E2 = `other 1`, `other 2` (Exception subclasses); BE = `other 3` (BaseException subclass);
    E1s = `other 4` (a subclass of E1); KeyboardInterrupt, SystemExit = `other 5`, `other 6` (BaseException). -/
def ExcClass.isException : Exc → Bool
  | .genExit => false
  | .cancelled _ => false
  | .other 3 => false
  | .other 5 => false
  | .other 6 => false
  | .syncAbort => false
  | _ => true

def ExcClass.matches : ExcClass → Exc → Bool
  | .genExit, .genExit => true
  | .cancelled, .cancelled _ => true
  | .e1, .other 1 => true
  | .e1, .other 4 => true
  | .e2, .other 2 => true
  | .runtime, .runtime _ => true
  | .oobData, .oobData _ => true
  | .stopAsync, .stopAsync => true
  | .exception, e => ExcClass.isException e
  | .baseException, _ => true
  | _, _ => false

inductive Stmt where
  | log (n : Int)
  | susp (t : Val)
  | oob (m : MonId) (d : Val)
  | sub (m : MonId) (op : Op)
  | raise (e : Exc)
  | ret (v : Val)
  | try_ (body : List Stmt) (handlers : List (ExcClass × List Stmt)) (fin : List Stmt)
  | call (body : List Stmt)
deriving Inhabited

/-- body event log -/
inductive Ev where
  | log (n : Int)
  | recv (v : Val)          -- value an await (`tok`, `oob`, `ayield`, monitor call) evaluated to
  | caught (e : Exc)        -- an `except` clause was entered with e
deriving Repr, DecidableEq, Inhabited

inductive Completion where
  | normal
  | raising (e : Exc)
  | returning (v : Val)
deriving Inhabited

inductive Frame where
  | seq (rest : List Stmt)
  | tryF (handlers : List (ExcClass × List Stmt)) (fin : List Stmt)
  | handlerF (fin : List Stmt)
  | finF (pending : Completion)
  | callF (closing : Bool)   -- nested coroutine frame; `closing`: being closed by PEP 380 (see `markClosing`)
deriving Inhabited

structure PSt where
  k : List Frame
  log : List Ev     -- newest first
deriving Inhabited

inductive Mode where
  | exec (ss : List Stmt)
  | comp (c : Completion)

def findHandler (e : Exc) : List (ExcClass × List Stmt) → Option (List Stmt)
  | [] => none
  | (c, b) :: hs => if c.matches e then some b else findHandler e hs

/-- PEP 380: a GeneratorExit thrown into a coroutine that is suspended inside nested `await`s is
    delivered to the nested frames with `close()`. -/
def markClosing : List Frame → List Frame
  | [] => []
  | .callF _ :: k => .callF true :: markClosing k
  | fr :: k => fr :: markClosing k

def fuelOut : Exc := .other 999

/-- run the program up to its next interaction -/
def run : Nat → Mode → List Frame → List Ev → PStep PSt
  | 0, _, k, log => .raise fuelOut ⟨k, log⟩
  | f + 1, .exec [], k, log => run f (.comp .normal) k log
  | f + 1, .exec (s :: rest), k, log =>
    match s with
    | .log n => run f (.exec rest) k (.log n :: log)
    | .susp t => .yield t ⟨.seq rest :: k, log⟩
    | .oob m d => .oob m d ⟨.seq rest :: k, log⟩
        (fun _ => run f (.comp (.raising (.runtime rtNotActive))) (.seq rest :: k) log)
    | .sub m op => .sub m op ⟨.seq rest :: k, log⟩ (fun how r =>
        let k' := match how with
          | some (.throw .genExit) => markClosing (.seq rest :: k)
          | _ => .seq rest :: k
        match r with
        | .send v => run f (.comp .normal) k' (.recv v :: log)
        | .throw e => run f (.comp (.raising e)) k' log)
    | .raise e => run f (.comp (.raising e)) k log
    | .ret v => run f (.comp (.returning v)) k log
    | .try_ b hs fin => run f (.exec b) (.tryF hs fin :: .seq rest :: k) log
    | .call b => run f (.exec b) (.callF false :: .seq rest :: k) log
  | _ + 1, .comp c, [], log =>
    match c with
    | .normal => .ret 0 ⟨[], log⟩
    | .returning v => .ret v ⟨[], log⟩
    | .raising e => .raise e ⟨[], log⟩
  | f + 1, .comp c, fr :: k, log =>
    match fr, c with
    | .seq rest, .normal => run f (.exec rest) k log
    | .seq _, c => run f (.comp c) k log
    | .tryF hs fin, .raising e =>
      match findHandler e hs with
      | some b => run f (.exec b) (.handlerF fin :: k) (.caught e :: log)
      | none => run f (.exec fin) (.finF c :: k) log
    | .tryF _ fin, c => run f (.exec fin) (.finF c :: k) log
    | .handlerF fin, c => run f (.exec fin) (.finF c :: k) log
    | .finF pend, .normal => run f (.comp pend) k log
    | .finF _, c => run f (.comp c) k log
    -- PEP 479 at every coroutine-frame boundary
    | .callF _, .raising (.stopIter _) => run f (.comp (.raising (.runtime Proto.rtRaisedStopIter))) k log
    | .callF false, .returning _ => run f (.comp .normal) k log
    | .callF false, c => run f (.comp c) k log
    -- the frame was closed by `close()`: a return (GeneratorExit swallowed) or GeneratorExit is a
    -- clean close and GeneratorExit is then raised in the awaiting frame; an error propagates
    | .callF true, .raising e => run f (.comp (.raising e)) k log
    | .callF true, _ => run f (.comp (.raising .genExit)) k log

def fuel : Nat := 100000

/-- the program as a parent body (every statement kind) -/
def progP (prog : List Stmt) : PBody where
  σ := Option PSt            -- none = not started
  init := none
  resume s r :=
    let lift : PStep PSt → PStep (Option PSt) := fun st =>
      -- map states into `some`
      let rec go : PStep PSt → PStep (Option PSt)
        | .yield y s => .yield y (some s)
        | .oob m d s refused => .oob m d (some s) (fun u => go (refused u))
        | .sub m op s k => .sub m op (some s) (fun how r => go (k how r))
        | .ret v s => .ret v (some s)
        | .raise e s => .raise e (some s)
      go st
    match s, r with
    | none, .send _ => lift (run fuel (.exec prog) [] [])
    | none, .throw e => .raise e none
    | some st, .send v => lift (run fuel (.comp .normal) st.k (.recv v :: st.log))
    | some st, .throw .genExit => lift (run fuel (.comp (.raising .genExit)) (markClosing st.k) st.log)
    | some st, .throw e => lift (run fuel (.comp (.raising e)) st.k st.log)

/-- forget `sub` (leaf programs never contain it) -/
def toStep {σ : Type} : PStep σ → Step σ
  | .yield y s => .yield y s
  | .oob m d s refused => .oob m d s (fun u => toStep (refused u))
  | .sub _ _ _ k => toStep (k none (.throw .typeErr))
  | .ret v s => .ret v s
  | .raise e s => .raise e s

def progM (prog : List Stmt) : MBody where
  σ := Option PSt
  init := none
  resume s r := toStep ((progP prog).resume s r)

def logOf : Option PSt → List Ev
  | none => []
  | some st => st.log.reverse

end Asynkit.MonProg
