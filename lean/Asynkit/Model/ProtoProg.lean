/-
A small concrete syntax of coroutine bodies and its interpreter `interp : Prog → Body`.
Used ONLY by the correspondence driver (Drivers/Proto.lean): the Python harness renders the
same program as real `async def` source text.  The theorems never mention this file — they are
about arbitrary `Body`.

    stmt ::= (log n) | (tok n) | (fut k) | (bare) | (call stmt*)
           | (try (stmt*) (catch K stmt*)* (finally stmt*)) | (reraise) | (ret v) | (raise E)
           | (cset i v) | (cget i) | (creset i)

`(tok n)` = `L.append(("r", await Tok(n)))`: yields `tok n`, logs what comes back.
`(fut k)` = await of a real asyncio Future: yields `fut k`; the driver resolves it with 100+k
before the next send, so the value received is 100+k.  `(bare)` = `await sleep0()`.
`(call …)` = `L.append(("r", await sub()))` with `sub` a nested `async def`.
`(cset i v)` = `TOKS.append((i, CV[i].set(v)))` on ContextVar i (default 0); `(cget i)` logs its value;
`(creset i)` resets the newest outstanding token of variable i (no-op if none).
A handler logs the exception it caught.  `(reraise)` = bare `raise` directly in a handler.
-/
import Asynkit.Model.Proto

namespace Asynkit.Proto.Prog

inductive Catch where
  | e1 | e2 | cancelled | genExit | syncAbort | exception | baseException
deriving Repr, DecidableEq, Inhabited

/-- is `e` an instance of (a subclass of) `Exception`? -/
def isException : Exc → Bool
  | .genExit => false
  | .cancelled _ => false
  | .syncAbort => false
  | .other 3 => false
  | .other 5 => false         -- KeyboardInterrupt
  | .other 6 => false         -- SystemExit          -- BE: a KeyboardInterrupt-like BaseException
  | _ => true

def Catch.catches : Catch → Exc → Bool
  | .e1, .other 1 => true
  | .e2, .other 2 => true
  | .cancelled, .cancelled _ => true
  | .genExit, .genExit => true
  | .syncAbort, .syncAbort => true
  | .exception, e => isException e
  | .baseException, _ => true
  | _, _ => false

inductive Stmt where
  | log (n : Nat)
  | tok (n : Int)
  | fut (k : Nat)
  | bare
  | call (body : List Stmt)
  | tryS (body : List Stmt) (handlers : List (Catch × List Stmt)) (fin : List Stmt)
  | reraise
  | ret (v : Val)
  | raise (e : Exc)
  | cset (i : Nat) (v : Val)
  | cget (i : Nat)
  | creset (i : Nat)
deriving Inhabited

abbrev Prog := List Stmt

inductive Ev where
  | log (n : Nat)
  | recv (v : Val)
  | caught (e : Exc)
  | cv (i : Nat) (v : Val)
deriving Repr, DecidableEq, Inhabited

inductive Sig where
  | normal
  | raising (e : Exc)
  | returning (v : Val)
deriving Inhabited

inductive Frame where
  | seq (rest : List Stmt)
  | tryF (hs : List (Catch × List Stmt)) (fin : List Stmt)
  | handF (e : Exc) (fin : List Stmt)
  | finF (pending : Sig)
  | callF
deriving Inhabited

inductive Wait where
  | none
  | val                 -- tok / bare: receives the sent value
  | futv (k : Nat)      -- future k: receives 100+k
deriving Inhabited

structure MState where
  code : List Stmt
  stack : List Frame
  log : List Ev
  wait : Wait
  cv : List (Nat × Val) := []       -- current context: ContextVar index ↦ value (absent = default 0)
  toks : List (Nat × Val) := []     -- outstanding tokens, newest first: (variable, old value)
deriving Inhabited

def cvGet (cv : List (Nat × Val)) (i : Nat) : Val :=
  match cv.find? (·.1 == i) with
  | some (_, v) => v
  | none => 0

def cvSet (cv : List (Nat × Val)) (i : Nat) (v : Val) : List (Nat × Val) :=
  (i, v) :: cv.filter (·.1 != i)

/-- remove the newest token of variable `i`; returns its old value -/
def popTok (i : Nat) : List (Nat × Val) → Option (Val × List (Nat × Val))
  | [] => none
  | (j, old) :: ts =>
    if j == i then some (old, ts)
    else match popTok i ts with
      | some (o, ts') => some (o, (j, old) :: ts')
      | none => none

/-- what the caller sees after resetting every outstanding token, newest first -/
def resetAll (cv : List (Nat × Val)) : List (Nat × Val) → List (Nat × Val)
  | [] => cv
  | (i, old) :: ts => resetAll (cvSet cv i old) ts

def findHandler (e : Exc) : List (Catch × List Stmt) → Option (List Stmt)
  | [] => none
  | (c, b) :: hs => if c.catches e then some b else findHandler e hs

def innermostHandled : List Frame → Option Exc
  | [] => none
  | .handF e _ :: _ => some e
  | _ :: fs => innermostHandled fs

/-- run until the next suspension / completion -/
def exec : Nat → MState → Sig → MState × Out
  | 0, st, _ => (st, .raise (.other 9999))                  -- fuel exhausted (never in practice)
  | fuel + 1, st, .normal =>
    match st.code with
    | s :: rest =>
      match s with
      | .log n => exec fuel { st with code := rest, log := st.log ++ [.log n] } .normal
      | .tok n => ({ st with code := rest, wait := .val }, .yield (.tok n))
      | .fut k => ({ st with code := rest, wait := .futv k }, .yield (.fut k))
      | .bare => ({ st with code := rest, wait := .val }, .yield .bare)
      | .call body => exec fuel { st with code := body, stack := .callF :: .seq rest :: st.stack } .normal
      | .tryS b hs fin =>
        exec fuel { st with code := b, stack := .tryF hs fin :: .seq rest :: st.stack } .normal
      | .reraise =>
        match innermostHandled st.stack with
        | some e => exec fuel { st with code := [] } (.raising e)
        | none => exec fuel { st with code := [] } (.raising (.runtime 0))
      | .ret v => exec fuel { st with code := [] } (.returning v)
      | .raise e => exec fuel { st with code := [] } (.raising e)
      | .cset i v =>
        exec fuel { st with code := rest, cv := cvSet st.cv i v, toks := (i, cvGet st.cv i) :: st.toks } .normal
      | .cget i => exec fuel { st with code := rest, log := st.log ++ [.cv i (cvGet st.cv i)] } .normal
      | .creset i =>
        match popTok i st.toks with
        | some (old, ts) => exec fuel { st with code := rest, cv := cvSet st.cv i old, toks := ts } .normal
        | none => exec fuel { st with code := rest } .normal
    | [] =>
      match st.stack with
      | [] => (st, .ret 0)
      | .seq rest :: fs => exec fuel { st with code := rest, stack := fs } .normal
      | .tryF _ fin :: fs => exec fuel { st with code := fin, stack := .finF .normal :: fs } .normal
      | .handF _ fin :: fs => exec fuel { st with code := fin, stack := .finF .normal :: fs } .normal
      | .finF p :: fs => exec fuel { st with code := [], stack := fs } p
      | .callF :: fs => exec fuel { st with code := [], stack := fs, log := st.log ++ [.recv 0] } .normal
  | fuel + 1, st, .raising e =>
    match st.stack with
    | [] => (st, .raise e)
    | .seq _ :: fs => exec fuel { st with stack := fs } (.raising e)
    | .tryF hs fin :: fs =>
      match findHandler e hs with
      | some body =>
        exec fuel { st with code := body, stack := .handF e fin :: fs, log := st.log ++ [.caught e] } .normal
      | none => exec fuel { st with code := fin, stack := .finF (.raising e) :: fs } .normal
    | .handF _ fin :: fs => exec fuel { st with code := fin, stack := .finF (.raising e) :: fs } .normal
    | .finF _ :: fs => exec fuel { st with stack := fs } (.raising e)
    | .callF :: fs =>
      match e with
      | .stopIter _ => exec fuel { st with stack := fs } (.raising (.runtime rtRaisedStopIter))
      | _ => exec fuel { st with stack := fs } (.raising e)
  | fuel + 1, st, .returning v =>
    match st.stack with
    | [] => (st, .ret v)
    | .seq _ :: fs => exec fuel { st with stack := fs } (.returning v)
    | .tryF _ fin :: fs => exec fuel { st with code := fin, stack := .finF (.returning v) :: fs } .normal
    | .handF _ fin :: fs => exec fuel { st with code := fin, stack := .finF (.returning v) :: fs } .normal
    | .finF _ :: fs => exec fuel { st with stack := fs } (.returning v)
    | .callF :: fs => exec fuel { st with code := [], stack := fs, log := st.log ++ [.recv v] } .normal

def fuel0 : Nat := 100000

/-- frames of the nested coroutines, innermost first (`callF` is the boundary between a
    sub-coroutine and its caller) -/
def segments : List Frame → List (List Frame)
  | [] => [[]]
  | .callF :: fs => [] :: segments fs
  | f :: fs =>
    match segments fs with
    | seg :: rest => (f :: seg) :: rest
    | [] => [[f]]

/-- Delivery of GeneratorExit (`close()` / `throw(GeneratorExit)`) to a stack of nested native
    awaits: CPython closes the innermost coroutine first (gen_close), then raises in its caller
    either GeneratorExit (the sub-coroutine exited) or the error of the close — notably
    RuntimeError("coroutine ignored GeneratorExit") when it yielded; that sub-coroutine is then
    dropped and finalised (`fin`: one more GeneratorExit, outcome discarded).  The outermost
    level's outcome is returned raw (its own envelope post-processes it). -/
def closeSegs (fuel : Nat) (fin : MState → MState) (st : MState) (sig : Exc) :
    List (List Frame) → MState × Out
  | [] => ({ st with code := [], stack := [], wait := .none }, .raise sig)
  | [outer] => exec fuel { st with code := [], stack := outer, wait := .none } (.raising sig)
  | seg :: rest =>
    let r := exec fuel { st with code := [], stack := seg, wait := .none } (.raising sig)
    match r.2 with
    | .yield _ => closeSegs fuel fin (fin r.1) (.runtime rtIgnoredGenExit) rest
    | .ret _ => closeSegs fuel fin r.1 .genExit rest
    | .raise .genExit => closeSegs fuel fin r.1 .genExit rest
    | .raise (.stopIter _) => closeSegs fuel fin r.1 (.runtime rtRaisedStopIter) rest
    | .raise e => closeSegs fuel fin r.1 e rest

def closeState : Nat → MState → MState × Out
  | 0, st => exec fuel0 { st with code := [], wait := .none } (.raising .genExit)
  | k + 1, st =>
    closeSegs fuel0 (fun s => (closeState k s).1) st .genExit (segments st.stack)

def interp (p : Prog) : Body where
  σ := MState
  init := { code := p, stack := [], log := [], wait := .none }
  resume st r :=
    match st.wait, r with
    | .none, .send _ => exec fuel0 st .normal
    | .none, .throw e => (st, .raise e)
    | .val, .send v => exec fuel0 { st with wait := .none, log := st.log ++ [.recv v] } .normal
    | .futv k, .send _ => exec fuel0 { st with wait := .none, log := st.log ++ [.recv (100 + k)] } .normal
    | _, .throw .genExit => closeState 4 st
    | _, .throw e => exec fuel0 { st with wait := .none, code := [] } (.raising e)

end Asynkit.Proto.Prog
