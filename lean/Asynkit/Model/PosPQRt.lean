/-
Run-time vocabulary of the code that `translator/pospq2lean.py` regenerates from
`asynkit.experimental.priority.PosPriorityQueue` on every run (`Asynkit/Gen/PosPQ.lean`).

* `PyExc`        — the exceptions that can arise in the translated class; `outOfFuel` is the
                   artificial outcome of a fuel-bounded `while` whose fuel ran out (the equality
                   theorems of `Lemmas/GenEqPosPQ.lean` show that it never happens).
* `LoopOut`      — how a translated loop was left: ran to completion, an exception escaped from its
                   body, or the body executed `return`.
* `pvAt/objAt/setPV` — a `(pri, obj)` pair produced by `self._pq.items()` is a *reference* to the
                   `PriorityValue` held by an entry of the heap array; it is represented by the
                   entry's index.  Reads go through the current state, an attribute write is a
                   `List.modify` at that index.  (PriorityValue objects are modelled by value:
                   two entries never share one mutable `PriorityValue`; see notes/GenPosPQ.md.)

A method `m(self, a…) -> R` is translated to `m H gp draw s a… : PosPQ × Except PyExc R`: the state
after the call (also when an exception escapes) and the result or the exception.

Core Lean only.
-/
import Asynkit.Model.PosPQ

namespace Asynkit

inductive PyExc where
  | indexError | valueError | assertionError | outOfFuel
deriving DecidableEq, Repr

inductive LoopOut (ρ : Type) where
  | done
  | raised (e : PyExc)
  | returned (r : ρ)

namespace PosPQ

/-- the `PriorityValue` of the entry at array index `i` -/
def pvAt (s : PosPQ) (i : Nat) : PV := (s.q.pq[i]?.map (·.pri)).getD default

/-- the object of the entry at array index `i` -/
def objAt (s : PosPQ) (i : Nat) : Nat := (s.q.pq[i]?.map (·.obj)).getD 0

/-- the sequence number of the entry at array index `i` (names the random draw made for it) -/
def seqAt (s : PosPQ) (i : Nat) : Nat := (s.q.pq[i]?.map (·.seq)).getD 0

/-- in-place attribute write on the `PriorityValue` of the entry at array index `i` -/
def setPV (s : PosPQ) (i : Nat) (pv : PV) : PosPQ :=
  { s with q := ⟨s.q.seq, s.q.pq.modify i (fun e => { e with pri := pv })⟩ }

end PosPQ
end Asynkit
