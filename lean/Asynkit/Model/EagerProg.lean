/-
C01 / C03 — the body language of the harness (harness/c01_lang.py) as a `VBody`: a small abstract
machine for log / await / sleep(0) / bad yield / return / raise / try-except-finally / nested call.
Only the correspondence driver and the non-vacuity examples use it; the theorems quantify over
*every* `VBody`.

`await f` is CPython's C `FutureIter`: a done future gives its result without suspending; a pending
one whose blocking flag is already set raises RuntimeError("await wasn't used with future"),
otherwise it is yielded (the envelope `Co.after` sets the flag).
-/
import Asynkit.Model.EagerKernel

namespace Asynkit.Eager
open Asynkit.Proto

inductive HK where
  | none | e1 | e2 | ex | ca | ba | b1 | rt
deriving Repr, DecidableEq, Inhabited

def excE1 : Exc := .other 1
def excE2 : Exc := .other 2
def excB1 : Exc := .other 3

def HK.matches : HK → Exc → Bool
  | .none, _ => false
  | .e1, e => e == excE1
  | .e2, e => e == excE2
  | .b1, e => e == excB1
  | .ca, .cancelled _ => true
  | .ca, _ => false
  | .rt, .runtime _ => true
  | .rt, _ => false
  | .ex, .other n => n == 1 || n == 2
  | .ex, .runtime _ => true
  | .ex, .typeErr => true
  | .ex, _ => false
  | .ba, _ => true

inductive Stmt where
  | log (n : Int)
  | await (f : Nat)
  | sleep0
  | badyield
  | ret (v : Int)
  | raise (e : Exc)
  | try_ (body : List Stmt) (hk : HK) (rr : Bool) (hbody : List Stmt) (fin : List Stmt)
  | call (body : List Stmt)

inductive LogE where
  | L (n : Int) | G (f : Nat) (v : Int) | S | Y | H (e : Exc) | F | C (v : Int)

inductive Compl where
  | normal | raise (e : Exc) | ret (v : Int)

inductive Frame where
  | seq (rest : List Stmt)
  | tryF (hk : HK) (rr : Bool) (hbody fin : List Stmt)
  | handlerF (e : Exc) (rr : Bool) (fin : List Stmt)
  | finF (pending : Compl)
  | callF

inductive Ctl where
  | exec (stmts : List Stmt)
  | unwind (c : Compl)
  | awaiting (f : Nat) (rest : List Stmt)
  | sleeping (rest : List Stmt)
  | badY (rest : List Stmt)

structure M where
  ctl : Ctl
  stack : List Frame
  log : List LogE        -- most recent first

/-- reading a done future inside `await` -/
def awaitDone (m : M) (f : Nat) (rest : List Stmt) (st : FSt) : M :=
  match st with
  | .result v => { m with ctl := .exec rest, log := .G f v :: m.log }
  | .exc e => { m with ctl := .unwind (.raise e.toExc) }
  | .cancelled => { m with ctl := .unwind (.raise (.cancelled 0)) }
  | .pending => m

/-- one micro step; `inr` = the machine stops with this output -/
def mstep (F : Futs) (m : M) : M ⊕ (M × Out) :=
  match m.ctl with
  | .exec [] => .inl { m with ctl := .unwind .normal }
  | .exec (.log n :: rest) => .inl { m with ctl := .exec rest, log := .L n :: m.log }
  | .exec (.await f :: rest) =>
    match (F f).st with
    | .pending =>
      if (F f).blocking then .inl { m with ctl := .unwind (.raise (.runtime rtAwaitNotUsed)) }
      else .inr ({ m with ctl := .awaiting f rest }, .yield (.fut f))
    | st => .inl (awaitDone m f rest st)
  | .exec (.sleep0 :: rest) => .inr ({ m with ctl := .sleeping rest }, .yield .bare)
  | .exec (.badyield :: rest) => .inr ({ m with ctl := .badY rest }, .yield (.tok 1))
  | .exec (.ret v :: _) => .inl { m with ctl := .unwind (.ret v) }
  | .exec (.raise e :: _) => .inl { m with ctl := .unwind (.raise e) }
  | .exec (.try_ body hk rr hbody fin :: rest) =>
    .inl { m with ctl := .exec body, stack := .tryF hk rr hbody fin :: .seq rest :: m.stack }
  | .exec (.call body :: rest) =>
    .inl { m with ctl := .exec body, stack := .callF :: .seq rest :: m.stack }
  | .unwind c =>
    match m.stack, c with
    | [], .normal => .inr (m, .ret 0)
    | [], .ret v => .inr (m, .ret v)
    | [], .raise e => .inr (m, .raise e)
    | .seq rest :: st, .normal => .inl { m with ctl := .exec rest, stack := st }
    | .seq _ :: st, c => .inl { m with ctl := .unwind c, stack := st }
    | .tryF hk rr hbody fin :: st, .raise e =>
      if hk.matches e then
        .inl { m with ctl := .exec hbody, stack := .handlerF e rr fin :: st, log := .H e :: m.log }
      else
        .inl { m with ctl := .exec fin, stack := .finF (.raise e) :: st, log := .F :: m.log }
    | .tryF _ _ _ fin :: st, c =>
      .inl { m with ctl := .exec fin, stack := .finF c :: st, log := .F :: m.log }
    | .handlerF e rr fin :: st, .normal =>
      .inl { m with ctl := .exec fin, stack := .finF (if rr then .raise e else .normal) :: st,
                    log := .F :: m.log }
    | .handlerF _ _ fin :: st, c =>
      .inl { m with ctl := .exec fin, stack := .finF c :: st, log := .F :: m.log }
    | .finF pending :: st, .normal => .inl { m with ctl := .unwind pending, stack := st }
    | .finF _ :: st, c => .inl { m with ctl := .unwind c, stack := st }
    | .callF :: st, .normal => .inl { m with ctl := .unwind .normal, stack := st, log := .C 0 :: m.log }
    | .callF :: st, .ret v => .inl { m with ctl := .unwind .normal, stack := st, log := .C v :: m.log }
    | .callF :: st, .raise e => .inl { m with ctl := .unwind (.raise e), stack := st }
  -- a suspended machine is only advanced through `enter`
  | .awaiting _ _ => .inr (m, .raise (.runtime 98))
  | .sleeping _ => .inr (m, .raise (.runtime 98))
  | .badY _ => .inr (m, .raise (.runtime 98))

def mrun (F : Futs) : Nat → M → M × Out
  | 0, m => (m, .raise (.runtime 99))
  | n + 1, m =>
    match mstep F m with
    | .inl m' => mrun F n m'
    | .inr r => r

/-- deliver a resume to a suspended (or fresh) machine -/
def enter (F : Futs) (m : M) (r : Resume) : M ⊕ (M × Out) :=
  match m.ctl, r with
  | .awaiting f rest, .send _ =>
    match (F f).st with
    | .pending =>
      if (F f).blocking then .inl { m with ctl := .unwind (.raise (.runtime rtAwaitNotUsed)) }
      else .inr (m, .yield (.fut f))
    | st => .inl (awaitDone m f rest st)
  | .sleeping rest, .send _ => .inl { m with ctl := .exec rest, log := .S :: m.log }
  | .badY rest, .send _ => .inl { m with ctl := .exec rest, log := .Y :: m.log }
  | .exec _, .send _ => .inl m
  | .unwind _, .send _ => .inl m
  | _, .throw e => .inl { m with ctl := .unwind (.raise e) }

def progFuel : Nat := 100000

def progBody (p : List Stmt) : VBody where
  σ := M
  init := ⟨.exec p, [], []⟩
  resume m r F :=
    match enter F m r with
    | .inl m' => mrun F progFuel m'
    | .inr x => x

end Asynkit.Eager
