/-
Text syntax of the body language (harness/monprog.py `tokens`) and canonical printing, shared by
Drivers/Monitor.lean and Drivers/AsyncGen.lean.  Not part of any proof.
-/
import Asynkit.Model.MonProg

namespace Asynkit.MonProgParse
open Asynkit Asynkit.Proto Asynkit.Monitor Asynkit.MonProg

def showExc : Exc → String
  | .genExit => "GeneratorExit"
  | .stopIter _ => "StopIteration"
  | .stopAsync => "StopAsyncIteration"
  | .cancelled _ => "CancelledError"
  | .runtime _ => "RuntimeError"
  | .typeErr => "TypeError"
  | .syncAbort => "SynchronousAbort"
  | .oobData d => s!"OOBData:{d}"
  | .other 1 => "E1"
  | .other 2 => "E2"
  | .other 3 => "BE"
  | .other 4 => "E1s"
  | .other 5 => "KeyboardInterrupt"
  | .other 6 => "SystemExit"
  | .other 7 => "FE"
  | .other 8 => "HookErr"
  | .other n => s!"X{n}"

def parseExc (s : String) : Option Exc :=
  match s with
  | "GE" => some .genExit
  | "CE" => some (.cancelled 0)
  | "E1" => some (.other 1)
  | "E2" => some (.other 2)
  | "BE" => some (.other 3)
  | "E1s" => some (.other 4)
  | "KI" => some (.other 5)
  | "SE" => some (.other 6)
  | "FE" => some (.other 7)
  | "RT" => some (.runtime 0)
  | "TE" => some .typeErr
  | "SAI" => some .stopAsync
  | "SI" => some (.stopIter 0)
  | _ =>
    match s.splitOn ":" with
    | ["OOB", d] => d.toInt?.map .oobData
    | _ => none

def parseCls (s : String) : Option ExcClass :=
  match s with
  | "GE" => some .genExit
  | "CE" => some .cancelled
  | "E1" => some .e1
  | "E2" => some .e2
  | "RT" => some .runtime
  | "OOB" => some .oobData
  | "SAI" => some .stopAsync
  | "EXC" => some .exception
  | "BASE" => some .baseException
  | _ => none

def parseOp : List String → Option (Op × List String)
  | "aw" :: v :: r => v.toInt?.map fun v => (.aawait v, r)
  | "at" :: e :: r => (parseExc e).map fun e => (.athrow e, r)
  | "ac" :: r => some (.aclose, r)
  | "st" :: r => some (.start, r)
  | "ta" :: v :: s :: r => do
    let v ← v.toInt?
    let s ← s.toInt?
    pure (.tryAwait v s, r)
  | _ => none

mutual
partial def parseStmts (ts : List String) : Option (List Stmt × List String) :=
  match ts with
  | [] => some ([], [])
  | ")" :: _ => some ([], ts)
  | _ => do
    let (s, r) ← parseStmt ts
    let (ss, r') ← parseStmts r
    pure (s :: ss, r')

partial def parseBlock (ts : List String) : Option (List Stmt × List String) :=
  match ts with
  | "(" :: r => do
    let (ss, r') ← parseStmts r
    match r' with
    | ")" :: r'' => pure (ss, r'')
    | _ => none
  | _ => none

partial def parseHandlers (ts : List String) : Option (List (ExcClass × List Stmt) × List String) :=
  match ts with
  | "H" :: c :: r => do
    let c ← parseCls c
    let (b, r') ← parseBlock r
    let (hs, r'') ← parseHandlers r'
    pure ((c, b) :: hs, r'')
  | _ => some ([], ts)

partial def parseStmt (ts : List String) : Option (Stmt × List String) :=
  match ts with
  | "L" :: n :: r => n.toInt?.map fun n => (.log n, r)
  | "S" :: t :: r => t.toInt?.map fun t => (.susp t, r)
  | "O" :: m :: d :: r => do
    let m ← m.toNat?
    let d ← d.toInt?
    pure (.oob m d, r)
  | "Y" :: d :: r => d.toInt?.map fun d => (.oob 0 d, r)      -- C06: `yield d` / `await g.ayield(d)`
  | "U" :: m :: r => do
    let m ← m.toNat?
    let (op, r') ← parseOp r
    pure (.sub m op, r')
  | "R" :: e :: r => (parseExc e).map fun e => (.raise e, r)
  | "T" :: v :: r => v.toInt?.map fun v => (.ret v, r)
  | "CALL" :: r => do
    let (b, r') ← parseBlock r
    pure (.call b, r')
  | "TRY" :: r => do
    let (b, r1) ← parseBlock r
    let (hs, r2) ← parseHandlers r1
    match r2 with
    | "FIN" :: r3 => do
      let (f, r4) ← parseBlock r3
      pure (.try_ b hs f, r4)
    | _ => none
  | _ => none
end

def showEv : Ev → String
  | .log n => s!"L{n}"
  | .recv v => s!"r{v}"
  | .caught e => s!"h{showExc e}"

def showLog (l : List Ev) : String := ",".intercalate (l.map showEv)

def cstState {σ : Type} : CSt σ → σ
  | .created s => s
  | .susp s => s
  | .done s => s

def cstTag {σ : Type} : CSt σ → String
  | .created _ => "new"
  | .susp _ => "susp"
  | .done _ => "done"

def showYV : YV → String
  | .plain v => s!"{v}"
  | .req m d => s!"req{m}:{d}"

def showOut : CallOut → String
  | .pending y => s!"pend {showYV y}"
  | .returned v => s!"ret {v}"
  | .raised e => s!"exc {showExc e}"

end Asynkit.MonProgParse
