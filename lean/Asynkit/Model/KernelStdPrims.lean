/-
How the attributes and helper functions of CPython's pure-Python `asyncio.futures.Future` /
`asyncio.tasks.Task` appear in the Kernel model: the vocabulary of the generated translation
`Asynkit/Gen/AsyncioKernel.lean` (translator/asynciokernel2lean.py).  Each definition is one attribute
read / write or one helper of tasks.py, on the Kernel state.
-/
import Asynkit.Model.KernelPrims

namespace Asynkit.Kernel

/-- `Future._state` : _PENDING | _CANCELLED | _FINISHED -/
inductive PyState where
  | pending | cancelled | finished
  deriving DecidableEq, Repr

/-- `self._state`; (`_state`, `_exception is None`) together are the model's `FutSt` -/
def pyState (s : State) (f : FutId) : PyState :=
  match (s.futs f).st with
  | .pending => .pending
  | .cancelled => .cancelled
  | .result => .finished
  | .exc => .finished

/-- `self._exception` (None, or the stored exception - which the model names by its future) -/
def exceptionOf (s : State) (f : FutId) : Option Exc :=
  if (s.futs f).st = .exc then some (.futExc f) else none

/-- `self._callbacks` -/
def callbacks (s : State) (f : FutId) : List Cb := (s.futs f).cbs

/-- `self._callbacks[:] = l` / `.append` -/
def setCallbacks (s : State) (f : FutId) (l : List Cb) : State := setFut s f { (s.futs f) with cbs := l }

/-- `self._state = _CANCELLED` -/
def setCancelled (s : State) (f : FutId) : State := setFut s f { (s.futs f) with st := .cancelled }

/-- `self._state = _FINISHED`, after `self._exception = exc` (`withExc`) or `self._result = v` -/
def setFinished (s : State) (f : FutId) (withExc : Bool) : State :=
  setFut s f { (s.futs f) with st := if withExc then .exc else .result }

/-- what the translated stdlib code can raise -/
inductive StdErr where
  | invalidState        -- exceptions.InvalidStateError
  | typeError
  | runtimeError
  | propagated          -- an exception of the coroutine that is re-raised out of the step (KeyboardInterrupt, SystemExit)
  | raised (e : Exc)    -- an exception object the model names
  deriving DecidableEq, Repr

/-- an error object thrown into a coroutine; classes the Kernel's `Exc` does not name (InvalidStateError,
    TypeError) are represented by `Exc.runtime`, "some exception that is not a CancelledError" -/
def errAsExc : StdErr → Exc
  | .raised e => e
  | _ => .runtime

/-- `self._must_cancel = b` -/
def setMustCancel (s : State) (t : TaskId) (b : Bool) : State :=
  setTask s t { (s.tasks t) with mustCancel := b }

/-- `_enter_task(loop, task)`: `_current_tasks[loop] = task` -/
def enterTask (s : State) (t : TaskId) : State := { s with ctx := .inTask t }

/-- `_leave_task(loop, task)`: `del _current_tasks[loop]` -/
def leaveTask (s : State) (_ : TaskId) : State := { s with ctx := .idle }

/-- `_register_task(task)`: the task joins `all_tasks()` -/
def registerTask (s : State) (t : TaskId) : State := { s with nt := max s.nt (t + 1) }

/-- `Future.__init__` of a new Task: a pending future half -/
def initFuture (s : State) (t : TaskId) : State := setTask s t { (s.tasks t) with done := false }

/-- `super().set_result(..) / set_exception(..) / cancel()` on a Task: its own Future half becomes done.
    (Abstraction: the result / exception / callbacks of a *Task* are not modelled - nobody awaits a Task.) -/
def finishTask (s : State) (t : TaskId) : State := setTask s t { (s.tasks t) with done := true }

/-- what a coroutine can yield to `Task.__step` -/
inductive Yielded where
  | none                                                  -- bare yield
  | fut (f : FutId) (blocking sameLoop isSelf : Bool)     -- an object with `_asyncio_future_blocking`
  | generator
  | other
  deriving DecidableEq, Repr

/-- `getattr(result, '_asyncio_future_blocking', None)` -/
def Yielded.blocking? : Yielded → Option Bool
  | .fut _ b _ _ => some b
  | _ => Option.none

def Yielded.futId : Yielded → FutId
  | .fut f _ _ _ => f
  | _ => 0

/-- `futures._get_loop(result) is self._loop` -/
def Yielded.sameLoop : Yielded → Bool
  | .fut _ _ l _ => l
  | _ => true

/-- `result is self` -/
def Yielded.isSelf : Yielded → Bool
  | .fut _ _ _ b => b
  | _ => false

def Yielded.isNone : Yielded → Bool
  | .none => true
  | _ => false

def Yielded.isGenerator : Yielded → Bool
  | .generator => true
  | _ => false

/-- the outcome of resuming the coroutine (`coro.send(None)` / `coro.throw(exc)`) -/
inductive CoroOut where
  | stopIteration          -- returned
  | cancelledError         -- raised CancelledError (or a subclass)
  | keyboardInterrupt      -- raised KeyboardInterrupt / SystemExit
  | otherException         -- raised anything else
  | yielded (y : Yielded)
  deriving DecidableEq, Repr

/-- how a step of the generator `Future.__await__` ends -/
inductive AwaitOut where
  | yielded (y : Yielded)      -- suspended at `yield self`
  | returned                   -- `return self.result()` (the value is not modelled)
  deriving DecidableEq, Repr

end Asynkit.Kernel
