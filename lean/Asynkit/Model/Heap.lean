/-
Model of the heap layer underneath `asynkit.tools.PriorityQueue`.

* `Entry`, `Entry.lt`      — `tools.PriEntry` and `PriEntry.__lt__` (only `<` on priorities).
* `HeapLib`                — the three `heapq` entry points used by asynkit, as functions on lists.
* `cpyHeap`                — CPython's `heapq` (`_siftdown`, `_siftup`, `heappush`, `heappop`,
                             `heapify`) transcribed comparison for comparison; the executable
                             model uses it so that array layouts agree with the real `_pq`.
* `IsHeap`, `HeapLib.Lawful` — the documented `heapq` contract.  asynkit-level theorems are
                             stated for every lawful heap library.

No Mathlib imports (this file is part of the executable driver).
-/
namespace Asynkit

/-- `tools.PriEntry(priority, sequence, obj)`; objects are identified by small naturals. -/
structure Entry (π : Type) where
  pri : π
  seq : Nat
  obj : Nat
deriving Repr, BEq, DecidableEq

instance {π} [Inhabited π] : Inhabited (Entry π) := ⟨⟨default, 0, 0⟩⟩

/-- `PriEntry.__lt__`:
    `(self.priority < other.priority) or (not (other.priority < self.priority) and self.sequence < other.sequence)` -/
def Entry.lt {π} (plt : π → π → Bool) (a b : Entry π) : Bool :=
  plt a.pri b.pri || (!(plt b.pri a.pri) && decide (a.seq < b.seq))

/-- The part of `heapq` asynkit calls. `pop` returns `none` on an empty list (IndexError). -/
structure HeapLib (α : Type) where
  push    : (α → α → Bool) → List α → α → List α
  pop     : (α → α → Bool) → List α → Option (α × List α)
  heapify : (α → α → Bool) → List α → List α

/-- Heap invariant of `heapq`: no element is smaller than its parent. -/
def IsHeap {α} (lt : α → α → Bool) (l : List α) : Prop :=
  ∀ i, 0 < i → (h : i < l.length) → lt l[i] (l[(i - 1) / 2]'(by omega)) = false

/-- The documented contract of `heapq` for a comparison `lt`. -/
structure HeapLib.Lawful {α} (H : HeapLib α) (lt : α → α → Bool) : Prop where
  push_perm    : ∀ l x, (H.push lt l x).Perm (x :: l)
  push_heap    : ∀ l x, IsHeap lt l → IsHeap lt (H.push lt l x)
  pop_nil      : H.pop lt [] = none
  pop_cons     : ∀ a l, ∃ l', H.pop lt (a :: l) = some (a, l') ∧ l'.Perm l ∧
                   (IsHeap lt (a :: l) → IsHeap lt l')
  heapify_perm : ∀ l, (H.heapify lt l).Perm l
  heapify_heap : ∀ l, IsHeap lt (H.heapify lt l)

/-! ### CPython's heapq, comparison for comparison -/
namespace Cpy
variable {α : Type} [Inhabited α]

/-- `_siftdown(heap, startpos, pos)` with `newitem` carried along. -/
def siftdownLoop (lt : α → α → Bool) (newitem : α) (startpos : Nat) :
    Nat → Array α → Nat → Array α
  | 0, heap, pos => heap.set! pos newitem
  | fuel + 1, heap, pos =>
    if pos > startpos then
      let parentpos := (pos - 1) / 2
      let parent := heap[parentpos]!
      if lt newitem parent then
        siftdownLoop lt newitem startpos fuel (heap.set! pos parent) parentpos
      else heap.set! pos newitem
    else heap.set! pos newitem

def siftdown (lt : α → α → Bool) (heap : Array α) (startpos pos : Nat) : Array α :=
  siftdownLoop lt heap[pos]! startpos (pos + 1) heap pos

/-- the `while childpos < endpos` loop of `_siftup`; returns the array and the final `pos`. -/
def siftupLoop (lt : α → α → Bool) (endpos : Nat) : Nat → Array α → Nat → Array α × Nat
  | 0, heap, pos => (heap, pos)
  | fuel + 1, heap, pos =>
    let childpos := 2 * pos + 1
    if childpos < endpos then
      let rightpos := childpos + 1
      let childpos :=
        if rightpos < endpos && !(lt heap[childpos]! heap[rightpos]!) then rightpos else childpos
      siftupLoop lt endpos fuel (heap.set! pos heap[childpos]!) childpos
    else (heap, pos)

def siftup (lt : α → α → Bool) (heap : Array α) (pos : Nat) : Array α :=
  let newitem := heap[pos]!
  let (heap, p) := siftupLoop lt heap.size (heap.size + 1) heap pos
  siftdown lt (heap.set! p newitem) pos p

def heappush (lt : α → α → Bool) (l : List α) (x : α) : List α :=
  (siftdown lt (l.toArray.push x) 0 l.length).toList

def heappop (lt : α → α → Bool) (l : List α) : Option (α × List α) :=
  match l with
  | [] => none
  | a :: rest =>
    match rest.getLast? with
    | none => some (a, [])
    | some last =>
      -- lastelt = heap.pop(); returnitem = heap[0]; heap[0] = lastelt; _siftup(heap, 0)
      some (a, (siftup lt ((last :: rest.dropLast).toArray) 0).toList)

def heapifyLoop (lt : α → α → Bool) : Nat → Array α → Array α
  | 0, heap => heap
  | i + 1, heap => heapifyLoop lt i (siftup lt heap i)

/-- `for i in reversed(range(n//2)): _siftup(x, i)` -/
def heapify (lt : α → α → Bool) (l : List α) : List α :=
  (heapifyLoop lt (l.length / 2) l.toArray).toList

end Cpy

def cpyHeap (α : Type) [Inhabited α] : HeapLib α :=
  { push := Cpy.heappush, pop := Cpy.heappop, heapify := Cpy.heapify }

/-! ### A second, obviously-correct heap library: a sorted list.
    Used to show that `HeapLib.Lawful` is satisfiable (see `Lemmas/Heap.lean`). -/
namespace Srt
variable {α : Type}

def insert (lt : α → α → Bool) (x : α) : List α → List α
  | [] => [x]
  | y :: ys => if lt x y then x :: y :: ys else y :: insert lt x ys

def sort (lt : α → α → Bool) : List α → List α
  | [] => []
  | x :: xs => insert lt x (sort lt xs)

end Srt

/-- Every operation re-sorts: a sorted list is a heap (parents precede children). -/
def sortedHeap (α : Type) : HeapLib α :=
  { push := fun lt l x => Srt.sort lt (x :: l)
    pop := fun lt l => match l with | [] => none | a :: r => some (a, Srt.sort lt r)
    heapify := fun lt l => Srt.sort lt l }

end Asynkit
