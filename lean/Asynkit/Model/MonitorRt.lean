/-
Runtime vocabulary for the code generated from src/asynkit/monitor.py by translator/monitor2lean.py
(`Asynkit/Gen/Monitor.lean`).  Hand-written, small, and about Python/CPython only — nothing here knows
what monitor.py does:

* `PyExc`  : an exception object as an `except` clause sees it (`stop v` = the StopIteration(v) by which
             a coroutine returns from `send/throw`);  `PyExc.as…/is…` = `isinstance` tests of the clauses
             the file uses;  `PyExc.leave` = an exception leaving a generator/coroutine frame (PEP 479).
* `Call`   : result of calling something that may raise.
* `coroResume/coroSend/coroThrow/coroClose` : `coro.send/throw/close` of the driven coroutine object, read
             off `Monitor.SCoro` (CPython's coroutine envelope, modelled-not-verified there).
* `Seg`    : outcome of one *segment* of a generator/coroutine function — from entry or from a resumption
             to the next suspension or exit.
* `YV.isRequest/monitorIs/data` : `isinstance(x, _OOBRequest)`, `x.monitor is self`, `x.data`.
* `PyThrow`: the `(type, value, traceback)` argument triple of `athrow`; CPython's normalisation of it
             (`PyErr_NormalizeException`) is not modelled: `.args e` carries the exception that
             `coro.throw(type, value, traceback)` raises; `.none3` is `(None, None, None)`.
* `GoiSt`  : the attributes of a GeneratorObjectIterator + the asyncgen hooks environment.
-/
import Asynkit.Model.AsyncGen

namespace Asynkit.MonRt
open Asynkit.Proto (Val Exc Resume)
open Asynkit.Monitor Asynkit.AsyncGen

inductive PyExc where
  | stop (v : Val)
  | exc (e : Exc)
deriving Repr, DecidableEq, Inhabited

/-- `isinstance(e, StopIteration)`, giving `e.value` -/
def PyExc.asStopIteration : PyExc → Option Val
  | .stop v => some v
  | .exc (.stopIter v) => some v
  | _ => none

/-- `isinstance(e, OOBData)`, giving `e.data` -/
def PyExc.asOOBData : PyExc → Option Val
  | .exc (.oobData d) => some d
  | _ => none

def PyExc.isGeneratorExit : PyExc → Bool
  | .exc .genExit => true
  | _ => false

def PyExc.isStopAsyncIteration : PyExc → Bool
  | .exc .stopAsync => true
  | _ => false

/-- the exception as `coro.throw(exc)` delivers it -/
def PyExc.thrown : PyExc → Exc
  | .stop v => .stopIter v
  | .exc e => e

/-- an exception leaving a generator / coroutine frame: PEP 479 -/
def PyExc.leave : PyExc → Exc
  | .stop _ => .runtime Proto.rtRaisedStopIter
  | .exc (.stopIter _) => .runtime Proto.rtRaisedStopIter
  | .exc e => e

inductive Call (α : Type) where
  | ok (a : α)
  | err (e : PyExc)

/-- outcome of one segment; `L` = what is kept at the suspension point, `S` = the mutable state -/
inductive Seg (L : Type) (S : Type) where
  | suspended (y : YV) (l : L) (s : S)
  | returned (v : Val) (s : S)
  | raised (e : Exc) (s : S)

def coroResume (c : SBody) (r : Resume) (s : CSt c.σ × Env) : (CSt c.σ × Env) × Call YV :=
  match SCoro.resume c s.1 r s.2 with
  | (cs, .yield y, env) => ((cs, env), .ok y)
  | (cs, .ret v, env) => ((cs, env), .err (.stop v))
  | (cs, .raise e, env) => ((cs, env), .err (.exc e))

def coroSend (c : SBody) (v : Val) (s : CSt c.σ × Env) : (CSt c.σ × Env) × Call YV :=
  coroResume c (.send v) s

def coroThrow (c : SBody) (e : PyExc) (s : CSt c.σ × Env) : (CSt c.σ × Env) × Call YV :=
  coroResume c (.throw e.thrown) s

def coroClose (c : SBody) (s : CSt c.σ × Env) : (CSt c.σ × Env) × Call Unit :=
  match SCoro.close c s.1 s.2 with
  | (cs, .raise e, env) => ((cs, env), .err (.exc e))
  | (cs, _, env) => ((cs, env), .ok ())

/-- `coro.cr_frame is None` / `coro_is_finished(coro)` -/
def coroFinished {σ : Type} (cs : CSt σ) : Bool := SCoro.isDone cs

/-- `coro_is_new(coro)` -/
def coroNew {σ : Type} (cs : CSt σ) : Bool := isCreated cs

def YV.isRequest : YV → Bool
  | .req _ _ => true
  | .plain _ => false

/-- `x.monitor is self` (only reached for a request) -/
def YV.monitorIs : YV → MonId → Bool
  | .req m' _, m => m' == m
  | .plain _, _ => false

/-- `x.data` (only reached for a request) -/
def YV.data : YV → Val
  | .req _ d => d
  | .plain v => v

inductive PyThrow where
  | none3
  | args (e : Exc)
deriving Repr, DecidableEq, Inhabited

def PyThrow.isNone : PyThrow → Bool
  | .none3 => true
  | .args _ => false

/-- what `coro.throw(type, value, traceback)` raises (`throw(None, None, None)` is a TypeError) -/
def PyThrow.exc : PyThrow → Exc
  | .none3 => .typeErr
  | .args e => e

/-- calling the installed `firstiter` hook: it returns, or raises whatever the user's hook raises -/
def hookCall (cfg : HookCfg) : Call Unit :=
  if cfg.raises then .err (.exc hookExc) else .ok ()

/-- a GeneratorObjectIterator (`monitor` = cell 0 of `env`, `coro`, `ag_running`, `hooks_inited`/`finalizer`)
    and the asyncgen hook calls made so far -/
structure GoiSt (σ : Type) where
  cs : CSt σ
  env : Env
  running : Bool
  hs : HookSt
  evs : List HookEv

end Asynkit.MonRt
