/-
Trace-acceptance driver for the PriorityLock / PriorityTask model (C11, C12, C13).
One line per stdin line.  See harness/c13_stepper.py for the producer.

  reset
  init <prioLoop 0|1> <nLocks> <task>...      task = P:<rat> (PriorityTask) | N (plain / Python task)
  ev <event>                                  -> ok | disabled
  obs                                         -> canonical observation of the state
Run:  lake env lean --run Drivers/Lock.lean < trace.txt
-/
import Asynkit.Model.Lock

open Asynkit Asynkit.Lock

structure DSt where
  s : State := {}
  nT : Nat := 0
  nL : Nat := 0

def parseRat (s : String) : Option Rat :=
  match s.splitOn "/" with
  | [a] => a.toInt?.map (fun n => (n : Rat))
  | [a, b] => do
    let n ← a.toInt?
    let d ← b.toNat?
    if d == 0 then none else some ((n : Rat) / (d : Rat))
  | _ => none

def showRat (r : Rat) : String := s!"{r.num}/{r.den}"

def showOptRat : Option Rat → String
  | none => "-"
  | some r => showRat r

def showFut : Fut → String
  | .pending => "p"
  | .result => "r"
  | .cancelled => "c"

def showStatus : Status → String
  | .blocked => "b"
  | .woken _ => "w"
  | .ready false => "r"
  | .ready true => "x"
  | .running => "R"
  | .done => "d"

def showNats (l : List Nat) : String :=
  if l.isEmpty then "-" else ".".intercalate (l.map toString)

def insNat (x : Nat) : List Nat → List Nat
  | [] => [x]
  | y :: ys => if x < y then x :: y :: ys else y :: insNat x ys
def sortNats (l : List Nat) : List Nat := l.foldr insNat []

def showLock (s : State) (k : Nat) : String :=
  let l := s.locks k
  let ws := (popOrder l.waiters).map fun w => s!"{w.task},{showRat w.key},{showFut w.fut}"
  s!"L{k}:{if l.locked then 1 else 0}:{match l.owner with | some o => toString o | none => "-"}:" ++
    (if ws.isEmpty then "-" else ";".intercalate ws)

def showTask (s : State) (i : Nat) : String :=
  let t := s.tasks i
  s!"T{i}:{showStatus t.status}:{if t.mustCancel then 1 else 0}:{showNats (sortNats t.holding)}:" ++
    s!"{match t.waitingOn with | some k => toString k | none => "-"}:{showRat (s.eff i)}:{showOptRat t.rkey}"

def showObs (d : DSt) : String :=
  "|".intercalate (((List.range d.nL).map (showLock d.s)) ++ ((List.range d.nT).map (showTask d.s)))

def parseTask (pl : Bool) (spec : String) : Option Task :=
  if spec == "N" then
    some { status := .ready false, rkey := if pl then some 0 else none }
  else match spec.splitOn ":" with
    | ["P", r] => (parseRat r).map fun p =>
        { prio := some p, status := .ready false, rkey := if pl then some p else none }
    | _ => none

def parseEv (args : List String) : Option Ev :=
  match args with
  | ["resume", i] => i.toNat?.map Ev.resume
  | ["acquire", k] => k.toNat?.map Ev.acquire
  | ["release", k] => k.toNat?.map Ev.release
  | ["badrelease", k] => k.toNat?.map Ev.badRelease
  | ["acquirefails", k] => k.toNat?.map Ev.acquireFails
  | ["sleep"] => some Ev.sleep
  | ["wait", e] => e.toNat?.map Ev.wait
  | ["finish"] => some Ev.finish
  | ["cancel", i] => i.toNat?.map Ev.cancel
  | ["throw", i, e] => do pure (Ev.throw (← i.toNat?) (← e.toNat?))
  | ["interrupt", i, e] => do pure (Ev.interrupt (← i.toNat?) (← e.toNat?))
  | ["set", e] => e.toNat?.map Ev.setEv
  | ["reinsert", i, ps] => do
      let ps ← if ps == "-" then some [] else (ps.splitOn ",").mapM String.toNat?
      pure (Ev.reinsert (← i.toNat?) ps)
  | _ => none

def step (d : DSt) (line : String) : DSt × String :=
  match (line.trimAscii.toString.splitOn " ").filter (· != "") with
  | ["reset"] => ({}, "ok")
  | "init" :: pl :: nl :: specs =>
    match nl.toNat?, specs.mapM (parseTask (pl == "1")) with
    | some nl, some ts =>
      let s : State := { tasks := fun i => ts.getD i {}, fuel := 2 * (ts.length + nl) + 1,
                         prioLoop := pl == "1" }
      ({ s := s, nT := ts.length, nL := nl }, "ok")
    | _, _ => (d, "bad-op")
  | "ev" :: args =>
    match parseEv args with
    | some e => if e.enabled d.s then ({ d with s := d.s.apply e }, "ok") else (d, "disabled")
    | none => (d, "bad-op")
  | ["obs"] => (d, showObs d)
  | _ => (d, "bad-op")

partial def loop (h : IO.FS.Stream) (out : IO.FS.Stream) (d : DSt) : IO Unit := do
  let line ← h.getLine
  if line.isEmpty then return ()
  let (d', o) := step d line
  out.putStrLn o
  loop h out d'

def main : IO Unit := do
  loop (← IO.getStdin) (← IO.getStdout) {}
