/-
Line-protocol driver for the container models (PriorityQueue / PosPriorityQueue).
One op per stdin line -> one canonical output line.  See harness/containers.py.
Run:  lake env lean --run Drivers/PQ.lean < ops.txt
-/
import Asynkit.Model.PosPQ

open Asynkit

abbrev H1 : HeapLib (Entry Int) := cpyHeap _
abbrev H2 : HeapLib (Entry PV) := cpyHeap _
def ilt (a b : Int) : Bool := decide (a < b)

structure PosSt where
  s : PosPQ := {}
  gp : List (Nat × Rat) := []
  draw : Rat := 1 / 2

def PosSt.gpf (p : PosSt) (x : Nat) : Rat :=
  match p.gp.find? (·.1 == x) with
  | some (_, r) => r
  | none => 0

structure St where
  pqs : List (Nat × PQ Int) := []
  poss : List (Nat × PosSt) := []

def St.getPQ (st : St) (i : Nat) : PQ Int :=
  match st.pqs.find? (·.1 == i) with
  | some (_, q) => q
  | none => PQ.empty

def St.setPQ (st : St) (i : Nat) (q : PQ Int) : St :=
  { st with pqs := (i, q) :: st.pqs.filter (·.1 != i) }

def St.getPos (st : St) (i : Nat) : PosSt :=
  match st.poss.find? (·.1 == i) with
  | some (_, q) => q
  | none => {}

def St.setPos (st : St) (i : Nat) (q : PosSt) : St :=
  { st with poss := (i, q) :: st.poss.filter (·.1 != i) }

def parseRat (s : String) : Option Rat :=
  match s.splitOn "/" with
  | [a] => a.toInt?.map (fun n => (n : Rat))
  | [a, b] => do
    let n ← a.toInt?
    let d ← b.toNat?
    if d == 0 then none else some ((n : Rat) / (d : Rat))
  | _ => none

def showRat (r : Rat) : String := s!"{r.num}/{r.den}"

def showItems (l : List (Entry Int)) : String :=
  "list " ++ ",".intercalate (l.map fun e => s!"{e.pri}:{e.obj}")

def showObjs (l : List Nat) : String :=
  "list " ++ ",".intercalate (l.map toString)

def parsePairs (s : String) : Option (List (Int × Nat)) :=
  if s == "-" then some [] else
  (s.splitOn ",").mapM fun p =>
    match p.splitOn ":" with
    | [a, b] => do
      let x ← a.toInt?
      let y ← b.toNat?
      pure (x, y)
    | _ => none

def insSorted (lt : α → α → Bool) (x : α) : List α → List α
  | [] => [x]
  | y :: ys => if lt x y then x :: y :: ys else y :: insSorted lt x ys

def sortBy (lt : α → α → Bool) (l : List α) : List α := l.foldr (insSorted lt) []

def stepPQ (st : St) (i : Nat) (args : List String) : St × String :=
  let q := st.getPQ i
  match args with
  | ["new"] => (st.setPQ i PQ.empty, "ok")
  | ["add", p, x] =>
    match p.toInt?, x.toNat? with
    | some p, some x => (st.setPQ i (q.add H1 ilt p x), "ok")
    | _, _ => (st, "bad-op")
  | ["extend", ps] =>
    match parsePairs ps with
    | some es => (st.setPQ i (q.extend H1 ilt es), "ok")
    | none => (st, "bad-op")
  | ["pop"] =>
    match q.popEntry H1 ilt with
    | none => (st, "err IndexError")
    | some (e, q') => (st.setPQ i q', s!"obj {e.obj}")
  | ["popitem"] =>
    match q.popEntry H1 ilt with
    | none => (st, "err IndexError")
    | some (e, q') => (st.setPQ i q', s!"item {e.pri} {e.obj}")
  | ["peek"] =>
    match q.peek with
    | none => (st, "err IndexError")
    | some e => (st, s!"obj {e.obj}")
  | ["peekitem"] =>
    match q.peek with
    | none => (st, "err IndexError")
    | some e => (st, s!"item {e.pri} {e.obj}")
  | ["len"] => (st, s!"n {q.len}")
  | ["bool"] => (st, s!"b {if q.pq.isEmpty then 0 else 1}")
  | ["in", x] =>
    match x.toNat? with
    | some x => (st, s!"b {if q.pq.any (·.obj == x) then 1 else 0}")
    | none => (st, "bad-op")
  | ["remove", x] =>
    match x.toNat? with
    | some x =>
      match q.remove H1 ilt x with
      | none => (st, "err ValueError")
      | some (e, q') => (st.setPQ i q', s!"pri {e.pri}")
    | none => (st, "bad-op")
  | ["find", x, rm] =>
    match x.toNat? with
    | some x =>
      let r := q.find H1 ilt (· == x) (rm == "1")
      (st.setPQ i r.2, match r.1 with | none => "none" | some e => s!"item {e.pri} {e.obj}")
    | none => (st, "bad-op")
  | ["findmod", m, r, rm] =>
    match m.toNat?, r.toNat? with
    | some m, some r =>
      let res := q.find H1 ilt (fun o => o % m == r) (rm == "1")
      (st.setPQ i res.2, match res.1 with | none => "none" | some e => s!"item {e.pri} {e.obj}")
    | _, _ => (st, "bad-op")
  | ["resched", x, p] =>
    match x.toNat?, p.toInt? with
    | some x, some p =>
      let r := q.reschedule H1 ilt (· == x) p
      (st.setPQ i r.2, match r.1 with | none => "none" | some o => s!"obj {o}")
    | _, _ => (st, "bad-op")
  | ["reschedmod", m, r, p] =>
    match m.toNat?, r.toNat?, p.toInt? with
    | some m, some r, some p =>
      let res := q.reschedule H1 ilt (fun o => o % m == r) p
      (st.setPQ i res.2, match res.1 with | none => "none" | some o => s!"obj {o}")
    | _, _, _ => (st, "bad-op")
  | ["refresh"] => (st.setPQ i (q.refresh H1 ilt), "ok")
  | ["sort"] => (st.setPQ i (q.sort ilt), "ok")
  | ["clear"] => (st.setPQ i (PQ.clear q), "ok")
  | ["copy", j] =>
    match j.toNat? with
    | some j => (st.setPQ j (PQ.copy q), "ok")
    | none => (st, "bad-op")
  | ["ordered", k] =>
    match k.toNat? with
    | some k =>
      let r := q.ordered H1 ilt k
      (st.setPQ i r.2, showItems r.1)
    | none => (st, "bad-op")
  | ["drain"] => (st, showItems (PQ.drain H1 ilt (q.len + 1) q))
  | ["sorteditems"] => (st, showItems (q.sort ilt).pq)
  | ["items"] =>
    (st, showItems (sortBy (fun a b => a.pri < b.pri || (a.pri == b.pri && a.obj < b.obj)) q.pq))
  | ["layout"] => (st, showItems q.pq)
  | ["seq"] => (st, s!"n {q.seq}")
  | _ => (st, "bad-op")

def showPV (e : Entry PV) : String :=
  s!"{e.obj}:{e.pri.cls}:{showRat e.pri.base}:{showRat e.pri.boost}"

def stepPos (st : St) (i : Nat) (args : List String) : St × String :=
  let p := st.getPos i
  let draw : Nat → Rat := fun _ => p.draw
  let set (s : PosPQ) : St := st.setPos i { p with s := s }
  match args with
  | ["new", f] =>
    match parseRat f with
    | some f => (st.setPos i { s := { factor := f } }, "ok")
    | none => (st, "bad-op")
  | ["gp", x, r] =>
    match x.toNat?, parseRat r with
    | some x, some r => (st.setPos i { p with gp := (x, r) :: p.gp.filter (·.1 != x) }, "ok")
    | _, _ => (st, "bad-op")
  | ["draw", r] =>
    match parseRat r with
    | some r => (st.setPos i { p with draw := r }, "ok")
    | none => (st, "bad-op")
  | ["append", x] =>
    match x.toNat? with
    | some x => (set (p.s.append H2 p.gpf x draw), "ok")
    | none => (st, "bad-op")
  | ["appendpri", x, r] =>
    match x.toNat?, parseRat r with
    | some x, some r => (set (p.s.appendPri H2 x r draw), "ok")
    | _, _ => (st, "bad-op")
  | ["insert", pos, x] =>
    match pos.toNat?, x.toNat? with
    | some pos, some x => (set (p.s.insert H2 pos x draw), "ok")
    | _, _ => (st, "bad-op")
  | ["popleft"] =>
    match p.s.popleft H2 draw with
    | none => (st, "err IndexError")
    | some (x, s') => (set s', s!"obj {x}")
  | ["remove", x] =>
    match x.toNat? with
    | some x =>
      match p.s.remove H2 x draw with
      | none => (st, "err ValueError")
      | some s' => (set s', "ok")
    | none => (st, "bad-op")
  | ["find", x, rm] =>
    match x.toNat? with
    | some x =>
      let r := p.s.find H2 (· == x) (rm == "1")
      (set r.2, match r.1 with | none => "none" | some o => s!"obj {o}")
    | none => (st, "bad-op")
  | ["resched", x, r] =>
    match x.toNat?, parseRat r with
    | some x, some r =>
      let res := p.s.reschedule H2 (· == x) r
      (set res.2, match res.1 with | none => "none" | some o => s!"obj {o}")
    | _, _ => (st, "bad-op")
  | ["reschedall"] => (set (p.s.rescheduleAll H2 p.gpf), "ok")
  | ["clear"] => (set p.s.clear, "ok")
  | ["iter"] =>
    let r := p.s.iter
    (set r.2, showObjs r.1)
  | ["len"] => (st, s!"n {p.s.len}")
  | ["bool"] => (st, s!"b {if p.s.q.pq.isEmpty then 0 else 1}")
  | ["in", x] =>
    match x.toNat? with
    | some x => (st, s!"b {if p.s.q.pq.any (·.obj == x) then 1 else 0}")
    | none => (st, "bad-op")
  | ["drain"] => (st, showObjs (PosPQ.drain H2 (p.s.len + 1) p.s draw))
  | ["prios"] =>
    (st, "list " ++ ",".intercalate (((p.s.q.sort PV.lt).pq).map showPV))
  | ["counters"] => (st, s!"ctr {p.s.nIns} {p.s.nRem} {p.s.lastMaint}")
  | _ => (st, "bad-op")

def step (st : St) (line : String) : St × String :=
  match (line.trimAscii.toString.splitOn " ").filter (· != "") with
  | "pq" :: i :: rest =>
    match i.toNat? with
    | some i => stepPQ st i rest
    | none => (st, "bad-op")
  | "pos" :: i :: rest =>
    match i.toNat? with
    | some i => stepPos st i rest
    | none => (st, "bad-op")
  | ["reset"] => ({}, "ok")
  | _ => (st, "bad-op")

partial def loop (h : IO.FS.Stream) (out : IO.FS.Stream) (st : St) : IO Unit := do
  let line ← h.getLine
  if line.isEmpty then return ()
  let (st', o) := step st line
  out.putStrLn o
  loop h out st'

def main : IO Unit := do
  loop (← IO.getStdin) (← IO.getStdout) {}
