/-
Trace-acceptance driver for the task_timeout model (C16).  One line in -> one line out.

  reset                           -> ok
  ev T enter L timed(0/1)         -> ok | disabled ...          (T = task the level belongs to)
  ev T fire L | ev T istep L thrown|refused|none | ev T exitOk L | ev T exitOther L
  ev T raise O N RES              -> ok iff the pending interrupt of task T is O, and unwinding N levels
                                     gives, level by level, RES (I = same interrupt, T = TimeoutError, X = other)
  obs T L:in|out:timer:itask ...  -> obs T <model's view of the same levels of task T>
-/
import Asynkit.Model.Timeout

open Asynkit.Timeout

structure DSt where
  ms : MState := minit
  dead : Bool := false

def showTimer : Timer → String
  | .none => "none" | .armed => "armed" | .fired => "fired" | .cancelled => "cancelled"

def showLevel (s : State) (id : Nat) : String :=
  match findLevel s id with
  | none => s!"{id}:?"
  | some (l, inb) =>
    let it := match l.ist with | .notCreated => "-" | .at _ => "live" | .done => "done"
    s!"{id}:{if inb then "in" else "out"}:{showTimer l.timer}:{it}"

def showExc (o : Nat) : Exc → Char
  | .intr o' => if o' == o then 'I' else 'X'
  | .timeoutErr => 'T'
  | .other => 'X'

def parseEvent (s : State) : List String → Option Event
  | ["enter", l, t] => do some (.enter (← l.toNat?) (t == "1"))
  | ["fire", l] => l.toNat?.map .fire
  | ["istep", l, "thrown"] => l.toNat?.map (.istep · .thrown)
  | ["istep", l, "refused"] => l.toNat?.map (.istep · .refused)
  | ["istep", l, "none"] => l.toNat?.map (.istep · .none)
  | ["exitOk", l] => l.toNat?.map .exitOk
  | ["exitOther", l] => l.toNat?.map .exitOther
  | ["raise", o, n, res] => do
    let o ← o.toNat?
    let n ← n.toNat?
    match s.pending with
    | some (o', _) =>
      if o' == o ∧ n ≤ s.stack.length then
        let r := unwind n s.stack (.intr o)
        if String.ofList (r.2.2.1.map (showExc o)) == res then some (.raise n) else none
      else none
    | none => none
  | _ => none

def stepLine (d : DSt) (line : String) : DSt × String :=
  match (line.trimAscii.toString.splitOn " ").filter (· != "") with
  | ["reset"] => ({}, "ok")
  | "ev" :: t :: rest =>
    if d.dead then (d, "dead") else
    match t.toNat? with
    | none => ({ d with dead := true }, "bad-task")
    | some t =>
      match parseEvent (d.ms t) rest with
      | none => ({ d with dead := true }, "rejected " ++ " ".intercalate rest)
      | some e =>
        match mstep d.ms t e with
        | none => ({ d with dead := true }, "disabled " ++ " ".intercalate rest)
        | some ms' => ({ d with ms := ms' }, "ok")
  | "obs" :: t :: rest =>
    if d.dead then (d, "dead") else
    match t.toNat? with
    | none => (d, "bad-task")
    | some t =>
      let ids := rest.filterMap fun tok => (tok.splitOn ":").head?.bind String.toNat?
      (d, if ids.isEmpty then s!"obs {t} -" else
            s!"obs {t} " ++ " ".intercalate (ids.map (showLevel (d.ms t))))
  | _ => (d, "bad-op")

partial def loop (h : IO.FS.Stream) (out : IO.FS.Stream) (d : DSt) : IO Unit := do
  let line ← h.getLine
  if line.isEmpty then return ()
  let (d', o) := stepLine d line
  out.putStrLn o
  loop h out d'

def main : IO Unit := do
  loop (← IO.getStdin) (← IO.getStdout) {}
