/-
Line-protocol driver for C06: the same program run as a native async generator (`nativeAG`
reference model) and as a GeneratorObjectIterator (`goi` over the Monitor model).

  reset
  prog <tokens…>                 the generator body (harness/monprog.py; `Y d` = yield d)
  mk                             fresh native generator + fresh GeneratorObjectIterator
  n|g call <op…>                 start a consumer: as v | at E | ac      (anext = as 0)
  n|g send v | n|g throw E       resume the suspended consumer
  n|g sync k                     aiter_sync: up to k items
Output:  <outcome> ; <ag_running> ; <frame state> <body log>        (g lines add the monitor state)
-/
import Asynkit.Model.MonProgParse
import Asynkit.Model.AsyncGen

open Asynkit Asynkit.Proto Asynkit.Monitor Asynkit.MonProg Asynkit.MonProgParse Asynkit.AsyncGen

/-- the program as a user generator body: `Y d` (parsed as `oob 0 d`) is `yield d` -/
def toU {σ : Type} : PStep σ → UStep σ
  | .yield y s => .await y s
  | .oob _ d s _ => .yieldVal d s
  | .sub _ _ _ k => toU (k none (.throw .typeErr))
  | .ret _ s => .ret s
  | .raise e s => .raise e s

def progUB (prog : List Stmt) : UB where
  σ := Option PSt
  init := none
  resume s r := toU ((progP prog).resume s r)

def parseCOp : List String → Option COp
  | ["as", v] => v.toInt?.map .asend
  | ["at", e] => (parseExc e).map .athrow
  | ["ac"] => some .aclose
  | _ => none

structure St where
  prog : List Stmt := []
  nat : Option (AG (Option PSt) × Option COp) := none
  goi : Option (Goi (progUB []) × Option COp) := none   -- σ does not depend on the program
  hooks : Option HookCfg := none     -- `hooks fi fz`: asyncgen hooks installed (hook events are reported)
  hsN : HookSt := {}
  hsG : HookSt := {}

def b01 (b : Bool) : String := if b then "1" else "0"

def showHk (l : List HookEv) : String :=
  if l.isEmpty then "hk=-" else "hk=" ++ ",".intercalate (l.map fun e => match e with | .firstiter => "fi" | .finalizer => "fz")

def repN (a : AG (Option PSt)) (o : String) : String :=
  s!"{o} ; {b01 a.running} ; {cstTag a.frame} {showLog (logOf (cstState a.frame))}"

def stepNat (ub : UB) (h : ub.σ = Option PSt) (a : AG (Option PSt)) (pend : Option COp) (args : List String) :
    Option (AG (Option PSt) × Option COp × String) :=
  let a' : AG ub.σ := h ▸ a
  let back : AG ub.σ → AG (Option PSt) := fun x => h ▸ x
  match args, pend with
  | "call" :: rest, _ =>
    match parseCOp rest with
    | some op =>
      let r := nativeStart ub op a'
      let p := match r.2, pend with
        | .pending _, _ => some op
        | _, p => p
      some (back r.1, p, repN (back r.1) (showOut r.2))
    | none => none
  | ["send", v], some op =>
    match v.toInt? with
    | some v =>
      let r := nativeResume ub op (.send v) a'
      some (back r.1, (match r.2 with | .pending _ => some op | _ => none), repN (back r.1) (showOut r.2))
    | none => none
  | ["throw", e], some op =>
    match parseExc e with
    | some e =>
      let r := nativeResume ub op (.throw e) a'
      some (back r.1, (match r.2 with | .pending _ => some op | _ => none), repN (back r.1) (showOut r.2))
    | none => none
  | _, _ => none

def step (st : St) (line : String) : St × String :=
  match (line.trimAscii.toString.splitOn " ").filter (· != "") with
  | ["reset"] => ({}, "ok")
  | "prog" :: toks =>
    match parseStmts toks with
    | some (prog, []) => ({ st with prog := prog }, "ok")
    | _ => (st, "bad-prog")
  | ["mk"] =>
    ({ st with nat := some (⟨.created none, false, false⟩, none),
               goi := some (⟨.created none, fun _ => 0, false⟩, none), hooks := none, hsN := {}, hsG := {} }, "ok")
  | ["hooks", a, b] => ({ st with hooks := some ⟨a == "1", b == "1", false⟩, hsN := {}, hsG := {} }, "ok")
  | ["hooks", a, b, r] => ({ st with hooks := some ⟨a == "1", b == "1", r == "1"⟩, hsN := {}, hsG := {} }, "ok")
  | ["n", "gc"] =>
    match st.nat with
    | some (a, _) => (st, showHk (nativeHookGC st.hsN a))
    | none => (st, "bad-op")
  | ["g", "gc"] =>
    match st.goi with
    | some (g0, _) =>
      let g : Goi (progUB st.prog) := ⟨g0.coro, g0.env, g0.running⟩
      (st, showHk (goiHookGC st.hsG g))
    | none => (st, "bad-op")
  | "n" :: args =>
    match st.nat with
    | none => (st, "bad-op")
    | some (a, pend) =>
      match args with
      | ["sync", k] =>
        let ub := progUB st.prog
        let k := k.toNat?.getD 0
        let rec go (n : Nat) (a : AG (Option PSt)) (acc : List Val) : AG (Option PSt) × List Val × String :=
          match n with
          | 0 => (a, acc, "more")
          | n + 1 =>
            match syncNext (nativeStart ub (.asend 0)) (nativeResume ub (.asend 0)) a with
            | (a', .returned v) => go n a' (acc ++ [v])
            | (a', .raised .stopAsync) => (a', acc, "end")
            | (a', .raised e) => (a', acc, s!"exc {showExc e}")
            | (a', .pending _) => (a', acc, "exc RuntimeError")
        let (a', vals, fin) := go k a []
        ({ st with nat := some (a', none) },
          s!"vals {",".intercalate (vals.map toString)} ; {fin} ; {cstTag a'.frame} {showLog (logOf (cstState a'.frame))}")
      | _ =>
        match stepNat (progUB st.prog) rfl a pend args with
        | some (a', p, s) =>
          match st.hooks, args with
          | some h, "call" :: _ =>
            let hk := nativeHookCall h st.hsN a
            if hookRaised h hk.2 then
              -- the firstiter hook raised: the call failed before touching the generator
              ({ st with hsN := hk.1 }, repN a (showOut (.raised hookExc)) ++ " ; " ++ showHk hk.2)
            else
              ({ st with nat := some (a', p), hsN := hk.1 }, s ++ " ; " ++ showHk hk.2)
          | _, _ => ({ st with nat := some (a', p) }, s)
        | none => (st, "bad-op")
  | "g" :: args =>
    match st.goi with
    | none => (st, "bad-op")
    | some (g0, pend) =>
      let ub := progUB st.prog
      let g : Goi ub := ⟨g0.coro, g0.env, g0.running⟩
      let back : Goi ub → Goi (progUB []) := fun x => ⟨x.coro, x.env, x.running⟩
      let rep : Goi ub → String → String := fun x o =>
        s!"{o} ; {b01 x.running} ; {cstTag x.coro} {showLog (logOf (cstState x.coro))} ; st={x.env 0}"
      match args, pend with
      | "call" :: rest, _ =>
        match parseCOp rest with
        | some op =>
          let r := goiStart ub op g
          let p := match r.2, pend with
            | .pending _, _ => some op
            | _, p => p
          match st.hooks with
          | some h =>
            let hk := goiHookCall h st.hsG g
            if hookRaised h hk.2 then
              ({ st with hsG := hk.1 }, rep g (showOut (.raised hookExc)) ++ " ; " ++ showHk hk.2)
            else
              ({ st with goi := some (back r.1, p), hsG := hk.1 }, rep r.1 (showOut r.2) ++ " ; " ++ showHk hk.2)
          | none => ({ st with goi := some (back r.1, p) }, rep r.1 (showOut r.2))
        | none => (st, "bad-op")
      | ["send", v], some op =>
        match v.toInt? with
        | some v =>
          let r := goiResume ub op (.send v) g
          ({ st with goi := some (back r.1, match r.2 with | .pending _ => some op | _ => none) }, rep r.1 (showOut r.2))
        | none => (st, "bad-op")
      | ["throw", e], some op =>
        match parseExc e with
        | some e =>
          let r := goiResume ub op (.throw e) g
          ({ st with goi := some (back r.1, match r.2 with | .pending _ => some op | _ => none) }, rep r.1 (showOut r.2))
        | none => (st, "bad-op")
      | ["sync", k], _ =>
        let k := k.toNat?.getD 0
        let rec goG (n : Nat) (a : Goi ub) (acc : List Val) : Goi ub × List Val × String :=
          match n with
          | 0 => (a, acc, "more")
          | n + 1 =>
            match syncNext (goiStart ub (.asend 0)) (goiResume ub (.asend 0)) a with
            | (a', .returned v) => goG n a' (acc ++ [v])
            | (a', .raised .stopAsync) => (a', acc, "end")
            | (a', .raised e) => (a', acc, s!"exc {showExc e}")
            | (a', .pending _) => (a', acc, "exc RuntimeError")
        let (a', vals, fin) := goG k g []
        ({ st with goi := some (back a', none) },
          s!"vals {",".intercalate (vals.map toString)} ; {fin} ; {cstTag a'.coro} {showLog (logOf (cstState a'.coro))}")
      | _, _ => (st, "bad-op")
  | _ => (st, "bad-op")

partial def loop (h : IO.FS.Stream) (out : IO.FS.Stream) (st : St) : IO Unit := do
  let line ← h.getLine
  if line.isEmpty then return ()
  let (st', o) := step st line
  out.putStrLn o
  loop h out st'

def main : IO Unit := do
  loop (← IO.getStdin) (← IO.getStdout) {}
