/-
Line-protocol driver for the C20 model (Asynkit/Model/CoroState.lean).  See harness/c20.py.
  reset
  new co|gc|ag
  op <send|throw|close|aw asend|aw athrow|aw aclose|a.send|a.throw|a.close> <await|yield|exit|->
     (the last word is what the body did when resumed, as logged by the body itself; `-` = not resumed)
Output:  resumed=<0/1> | <observation while running (top frame)> | <same, from a callee> |
         <same, from the clean-up code of a callee while the op is delivered> | <observation afterwards>
         observation = f r a s n k <inspect state> new= susp= fin=
Run:  lake env lean --run Drivers/CoroState.lean < ops.txt
-/
import Asynkit.Model.CoroState

open Asynkit.CoroState

def b2s (b : Bool) : String := if b then "1" else "0"

def showI : IState → String
  | .created => "created" | .running => "running" | .suspended => "suspended" | .closed => "closed"

def showObs (k : Kind) (s : St) : String :=
  let a := expose k s
  s!"f{b2s a.frame} r{b2s a.running} a{b2s a.awaiting} s{b2s a.suspended} n{b2s a.fresh} k{b2s a.onStack} " ++
  s!"{showI a.inspect} new={b2s (isNew k a)} susp={b2s (isSuspended k a)} fin={b2s (isFinished k a)}"

structure DrvSt where
  k : Kind := .coroutine
  d : DSt := initial

def parseOp : List String → Option Op
  | ["send"] => some .send
  | ["throw"] => some .throw
  | ["close"] => some .close
  | ["throwx"] => some .throwX
  | ["a.throwx"] => some .awThrowX
  | ["aw", "asend"] => some (.newAw .asend)
  | ["aw", "athrow"] => some (.newAw .athrow)
  | ["aw", "aclose"] => some (.newAw .aclose)
  | ["a.send"] => some .awSend
  | ["a.throw"] => some .awThrow
  | ["a.close"] => some .awClose
  | _ => none

def dstep (st : DrvSt) (line : String) : DrvSt × String :=
  match (line.trimAscii.toString.splitOn " ").filter (· != "") with
  | ["reset"] => ({}, "ok")
  | ["new", k] =>
    let kind := match k with | "co" => Kind.coroutine | "gc" => .genCoroutine | _ => .asyncGen
    ({ k := kind, d := initial },
      s!"resumed=0 | {showObs kind initial.st} | {showObs kind initial.st} | {showObs kind initial.st} | {showObs kind initial.st}")
  | "op" :: rest =>
    let resp := rest.getLast?.getD "-"
    match parseOp rest.dropLast with
    | none => (st, "bad-op")
    | some op =>
      let r : Resp := match resp with | "await" => .await | "yield" => .yield | _ => .exit
      let x := deliver st.k st.d op r
      -- the body's own log must agree with the model on whether it was resumed
      if x.resumed && resp == "-" then (st, "resumed=1 | model expects the body to run | - | - | -")
      else
        ({ st with d := x.after },
          s!"resumed={b2s x.resumed} | {showObs st.k x.mid} | {showObs st.k x.mid} | {showObs st.k x.midCleanup} | {showObs st.k x.after.st}")
  | _ => (st, "bad-op")

partial def loop (h : IO.FS.Stream) (out : IO.FS.Stream) (st : DrvSt) : IO Unit := do
  let line ← h.getLine
  if line.isEmpty then return ()
  let (st', o) := dstep st line
  out.putStrLn o
  loop h out st'

def main : IO Unit := do
  loop (← IO.getStdin) (← IO.getStdout) {}
