/-
Line-protocol driver for the scheduling models (C08 / C10).  One input line -> one output line.

  reset
  task <sid> prio|plain <pri num/den> <op>;<op>;...      (scripts, in sid order)        -> ok
  init t<sid> c<k> ...                                   (created before the loop runs)  -> ok
  locks <n>                                                                              -> ok
  run list                                               deque based loops               -> log
  run prio <factor num/den> <draw num/den>               priority loop                   -> log
  dq pop <len> <pos>        deque_pop on [0..len-1]                -> `e <x> <rest>` | `err IndexError`
  dq find <len> <x> <rm>    queue_find(key = (== x))               -> `some <x> <rest>` | `none`
  dq findmod <len> <m> <r> <rm>   queue_find(key = (% m == r)): several matches, the last one wins
  dq remove <len> <x>       queue_remove                           -> `ok <rest>` | `err ValueError`
  dq callpos <len> <pos>    call_pos(pos, new handle <len>)        -> `ok <list>`

See harness/c08_sched.py (`encode`).  Run: lake env lean --run Drivers/Sched.lean < lines
-/
import Asynkit.Model.Sched

open Asynkit Asynkit.Sched

abbrev HP : HeapLib (Entry PV) := cpyHeap _

structure DSt where
  tasks : Array TaskSt := #[]
  init : List Init := []
  locks : Nat := 0

def parseRat (s : String) : Option Rat :=
  match s.splitOn "/" with
  | [a] => a.toInt?.map (fun n => (n : Rat))
  | [a, b] => do
    let n ← a.toInt?
    let d ← b.toNat?
    if d == 0 then none else some ((n : Rat) / (d : Rat))
  | _ => none

def parseOp (s : String) : Option Op :=
  match s.splitOn ":" with
  | ["sleep0"] => some .sleep0
  | ["rmi"] => some .rmi
  | ["bl"] => some .bl
  | ["it"] => some .it
  | ["itk", k] => k.toNat?.map .itk
  | ["si", p] => p.toNat?.map .si
  | ["sw", t, p] => do
    let t ← t.toNat?
    if p == "n" then pure (.sw t none) else do
      let p ← p.toNat?
      pure (.sw t (some p))
  | ["ri", t, p] => do pure (.ri (← t.toNat?) (← p.toNat?))
  | ["cp", p, k] => do pure (.cp (← p.toNat?) (← k.toNat?))
  | ["cs", k] => k.toNat?.map .cs
  | ["cm", t, k] => do pure (.cm (← t.toNat?) (← k.toNat?))
  | ["cr", p, t, q] => do pure (.cr (← p.toNat?) (← t.toNat?) (← q.toNat?))
  | ["cr8", s] => s.toNat?.map .cr8
  | ["de", s] => s.toNat?.map .de
  | ["st", s] => s.toNat?.map .st
  | ["fi", t] => t.toNat?.map .fi
  | ["me", t] => t.toNat?.map .me
  | ["sp", v] => (parseRat v).map .sp
  | ["wk", t] => t.toNat?.map .wk
  | ["aq", l] => l.toNat?.map .aq
  | ["rl", l] => l.toNat?.map .rl
  | _ => none

def parseInit (s : String) : Option Init :=
  if s.startsWith "t" then (s.drop 1).toNat?.map .task
  else if s.startsWith "c" then (s.drop 1).toNat?.map .cb
  else none

def showList (l : List Nat) : String := ",".intercalate (l.map toString)

def stepDq (args : List String) : String :=
  match args with
  | ["pop", n, pos] =>
    match n.toNat?, pos.toInt? with
    | some n, some pos =>
      match Deque.dequePop (List.range n) pos with
      | none => "err IndexError"
      | some (x, r) => s!"e {x} {showList r}"
    | _, _ => "bad-op"
  | ["find", n, x, rm] =>
    match n.toNat?, x.toNat? with
    | some n, some x =>
      match Deque.queueFind (List.range n) (· == x) (rm == "1") with
      | (none, _) => "none"
      | (some h, r) => s!"some {h} {showList r}"
    | _, _ => "bad-op"
  | ["findmod", n, m, r, rm] =>
    match n.toNat?, m.toNat?, r.toNat? with
    | some n, some m, some r =>
      match Deque.queueFind (List.range n) (fun x => x % m == r) (rm == "1") with
      | (none, _) => "none"
      | (some h, r) => s!"some {h} {showList r}"
    | _, _, _ => "bad-op"
  | ["remove", n, x] =>
    match n.toNat?, x.toNat? with
    | some n, some x =>
      match Deque.queueRemove (List.range n) x with
      | none => "err ValueError"
      | some r => s!"ok {showList r}"
    | _, _ => "bad-op"
  | ["callpos", n, pos] =>
    match n.toNat?, pos.toInt? with
    | some n, some pos => s!"ok {showList (Deque.callPos (List.range n) pos n)}"
    | _, _ => "bad-op"
  | _ => "bad-op"

def step (st : DSt) (line : String) : DSt × String :=
  match (line.trimAscii.toString.splitOn " ").filter (· != "") with
  | ["reset"] => ({}, "ok")
  | ["task", sid, kind, pri, ops] =>
    match sid.toNat?, parseRat pri with
    | some sid, some pri =>
      if sid != st.tasks.size then (st, "bad-op") else
      let ops? := if ops == "-" then some [] else (ops.splitOn ";").mapM parseOp
      match ops? with
      | some ops =>
        ({ st with tasks := st.tasks.push { prioKind := kind == "prio", pri := pri, ops := ops.toArray } }, "ok")
      | none => (st, "bad-op")
    | _, _ => (st, "bad-op")
  | "init" :: items =>
    if items == ["-"] then ({ st with init := [] }, "ok") else
    match items.mapM parseInit with
    | some l => ({ st with init := l }, "ok")
    | none => (st, "bad-op")
  | ["locks", n] =>
    match n.toNat? with
    | some n => ({ st with locks := n }, "ok")
    | none => (st, "bad-op")
  | ["run", "list"] =>
    let log := runProgram listOps ([] : List Nat) st.tasks st.locks st.init 1000000
    (st, " ".intercalate log.toList)
  | ["run", "prio", f, d] =>
    match parseRat f, parseRat d with
    | some f, some d =>
      let q0 : PosPQ := { factor := f }
      let log := runProgram (posOps HP (fun _ => d)) q0 st.tasks st.locks st.init 1000000
      (st, " ".intercalate log.toList)
    | _, _ => (st, "bad-op")
  | "dq" :: args => (st, stepDq args)
  | _ => (st, "bad-op")

partial def loop (h : IO.FS.Stream) (out : IO.FS.Stream) (st : DSt) : IO Unit := do
  let line ← h.getLine
  if line.isEmpty then return ()
  let (st', o) := step st line
  out.putStrLn o
  loop h out st'

def main : IO Unit := do
  loop (← IO.getStdin) (← IO.getStdout) {}
