/-
Line-protocol driver for the Kernel transition system (C09, C15): replays an event trace
recorded by harness/c09_kernel.py on a real event loop.  One line in -> one line out.
`obs` prints the model's canonical observation, compared verbatim with the recorded one.
Run:  lake env lean --run Drivers/Kernel.lean < trace.txt
-/
import Asynkit.Model.Kernel

open Asynkit.Kernel

def showExc : Exc → String
  | .cancelled => "C"
  | .intr id _ => s!"i{id}"
  | .futExc f => s!"F{f}"
  | .runtime => "R"

/-- The argument of a C task's step callback is hidden inside the TaskStepMethWrapper, so it is
    not part of the observation. -/
def showHandle (s : State) : Handle → String
  | .step t none => s!"s{t}"
  | .step t (some e) => if (s.tasks t).py then s!"s{t}^{showExc e}" else s!"s{t}"
  | .wakeup t f => s!"w{t}:{f}"
  | .cb _ => "k"
  | .otherBound t => s!"o{t}"

def showCb : Cb → String
  | .wake t => s!"w{t}"
  | .other _ => "k"

def showSt : FutSt → String
  | .pending => "P" | .result => "R" | .exc => "E" | .cancelled => "C"

def showTask (s : State) (t : Nat) : String :=
  let T := s.tasks t
  let k := if T.py then "p" else "c"
  if T.done then s!"{t}{k}D" else
  let fw := match T.futWaiter with
    | none => "-"
    | some f => s!"f{f}"
  s!"{t}{k}{fw}{if T.mustCancel then "!" else ""}"

def showFut (s : State) (f : Nat) : String :=
  let F := s.futs f
  s!"{f}{showSt F.st}{if F.noCancel then "~" else ""}" ++ ".".intercalate (F.cbs.map showCb)

def insSorted (x : Nat) : List Nat → List Nat
  | [] => [x]
  | y :: ys => if x ≤ y then x :: y :: ys else y :: insSorted x ys

def sortNat (l : List Nat) : List Nat := l.foldr insSorted []

def showApi : Except ApiErr (List Nat) → String
  | .ok l => ",".intercalate ((sortNat l).map toString)
  | .error .noRunningLoop => "!norun"
  | .error .assertion => "!assert"

def b01 (b : Bool) : String := if b then "1" else "0"

def showObs (s : State) : String :=
  let ctx := match s.ctx with
    | .stopped => "S" | .idle => "I" | .inTask t => s!"T{t}"
  let ts := (List.range s.nt).map (showTask s)
  let fs := (List.range s.nf).map (showFut s)
  let fl := (List.range s.nt).map fun t =>
    s!"{t}:{b01 (isRunnable s t)}{b01 (isBlocked s t)}{b01 (readyFind s t)}"
  let lg := s.log.map fun (t, e) => s!"{t}:{showExc e}"
  s!"ctx={ctx} tasks=[{";".intercalate ts}] ready=[{",".intercalate (s.ready.map (showHandle s))}] " ++
  s!"futs=[{";".intercalate fs}] Re={showApi (runnableTasks s true)} Be={showApi (blockedTasks s true)} " ++
  s!"Ri={showApi (runnableTasks s false)} Bi={showApi (blockedTasks s false)} " ++
  s!"fl=[{";".intercalate fl}] log=[{",".intercalate lg}] err={b01 s.err}"

/-- Re-tabulate the function-valued maps so that closure chains stay short. -/
def normalize (s : State) : State :=
  let ta := (Array.range s.nt).map s.tasks
  let fa := (Array.range (s.nf + 1)).map s.futs
  let td : Task := {}
  let fd : Fut := {}
  { s with tasks := fun i => ta.getD i td, futs := fun i => fa.getD i fd }

def showOut : Out → String
  | .ok => "ok" | .noop => "noop" | .refused => "refused" | .valueError => "valueerror"
  | .notEnabled => "notenabled" | .kernelError => "kernelerror"

def parseEvent (ws : List String) : Option Event :=
  match ws with
  | ["create", k] => some (.create (k == "p"))
  | ["newfut"] => some .newFut
  | ["setres", f] => f.toNat?.map .setResult
  | ["setexc", f] => f.toNat?.map .setExc
  | ["cancelfut", f] => f.toNat?.map .cancelFut
  | ["nocancel", f, b] => f.toNat?.map (.setNoCancel · (b == "1"))
  | ["addcb", f] => f.toNat?.map (.addCb · 0)
  | ["cancel", t] => t.toNat?.map .cancelTask
  | ["cscancel", t] => t.toNat?.map .callSoonOther
  | ["cscb"] => some (.callSoonCb 0)
  | ["throw", t, cd] => t.toNat?.map (.taskThrow · (cd == "1"))
  | ["reinsert", t, p] => do
    let t ← t.toNat?
    let p ← p.toNat?
    pure (.reinsert t p)
  | ["begin"] => some .begin
  | ["end", "none"] => some (.endStep .yieldNone)
  | ["end", "err"] => some (.endStep .yieldErr)
  | ["end", "fut", f] => f.toNat?.map fun f => .endStep (.yieldFut f)
  | ["end", "finish"] => some (.endStep .finish)
  | ["pause"] => some .pause
  | ["resume"] => some .resume
  | _ => none

def handleLine (s : State) (line : String) : State × String :=
  let ws := (line.splitOn " ").filter (· != "")
  match ws with
  | ["reset"] => (init, "ok")
  | ["obs"] => (s, showObs s)
  | _ =>
    match parseEvent ws with
    | none => (s, "parseerror")
    | some ev =>
      let extra : String := match ev with
        | .create _ => s!" {s.nt}"
        | .newFut => s!" {s.nf}"
        | .taskThrow _ _ => s!" {s.nexc}"
        | .begin => match s.ready with
          | h :: _ => " " ++ showHandle s h
          | [] => ""
        | _ => ""
      -- events on ids that do not exist are harness errors, not behaviours of the model
      let inRange : Bool := match ev with
        | .setResult f | .setExc f | .cancelFut f | .addCb f _ | .setNoCancel f _ => f < s.nf
        | .endStep (.yieldFut f) => f < s.nf
        | .cancelTask t | .callSoonOther t | .reinsert t _ => t < s.nt
        | .taskThrow t _ => t < s.nt && (s.tasks t).py
        | _ => true
      if !inRange then (s, "notenabled range") else
      let (s', out) := step s ev
      (normalize s', showOut out ++ extra)

partial def loop (h : IO.FS.Stream) (out : IO.FS.Stream) (s : State) : IO Unit := do
  let line ← h.getLine
  if line.isEmpty then return
  let line := (line.replace "\n" "").replace "\r" ""
  let (s', o) := handleLine s line
  out.putStrLn o
  loop h out s'

def main : IO Unit := do
  let stdin ← IO.getStdin
  let stdout ← IO.getStdout
  loop stdin stdout init
