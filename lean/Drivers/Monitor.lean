/-
Line-protocol driver for the Monitor model (C07).  One op per stdin line -> one output line.

  reset
  prog <pid> <tokens…>          define a program (syntax: harness/monprog.py)
  mk <pid_outer> … <pid_inner>  coroutine = nest P_outer (… (leaf P_inner))
  call <m> <flavour> <op…>      start `M[m].<op>(coro, …)`   op: aw v | at E | ac | st | ta v s
  send <v> | throw <E> | close  resume / close the pending call
Output:  <outcome> ; <state of monitors 0..3> ; <body logs>
-/
import Asynkit.Model.MonProg

open Asynkit Asynkit.Proto Asynkit.Monitor Asynkit.MonProg

def showExc : Exc → String
  | .genExit => "GeneratorExit"
  | .stopIter _ => "StopIteration"
  | .stopAsync => "StopAsyncIteration"
  | .cancelled _ => "CancelledError"
  | .runtime _ => "RuntimeError"
  | .typeErr => "TypeError"
  | .syncAbort => "SynchronousAbort"
  | .oobData d => s!"OOBData:{d}"
  | .other 1 => "E1"
  | .other 2 => "E2"
  | .other 3 => "BE"
  | .other n => s!"X{n}"

def parseExc (s : String) : Option Exc :=
  match s with
  | "GE" => some .genExit
  | "CE" => some (.cancelled 0)
  | "E1" => some (.other 1)
  | "E2" => some (.other 2)
  | "BE" => some (.other 3)
  | "RT" => some (.runtime 0)
  | "TE" => some .typeErr
  | "SAI" => some .stopAsync
  | "SI" => some (.stopIter 0)
  | _ =>
    match s.splitOn ":" with
    | ["OOB", d] => d.toInt?.map .oobData
    | _ => none

def parseCls (s : String) : Option ExcClass :=
  match s with
  | "GE" => some .genExit
  | "CE" => some .cancelled
  | "E1" => some .e1
  | "E2" => some .e2
  | "RT" => some .runtime
  | "OOB" => some .oobData
  | "SAI" => some .stopAsync
  | "EXC" => some .exception
  | "BASE" => some .baseException
  | _ => none

def parseOp : List String → Option (Op × List String)
  | "aw" :: v :: r => v.toInt?.map fun v => (.aawait v, r)
  | "at" :: e :: r => (parseExc e).map fun e => (.athrow e, r)
  | "ac" :: r => some (.aclose, r)
  | "st" :: r => some (.start, r)
  | "ta" :: v :: s :: r => do
    let v ← v.toInt?
    let s ← s.toInt?
    pure (.tryAwait v s, r)
  | _ => none

mutual
partial def parseStmts (ts : List String) : Option (List Stmt × List String) :=
  match ts with
  | [] => some ([], [])
  | ")" :: _ => some ([], ts)
  | _ => do
    let (s, r) ← parseStmt ts
    let (ss, r') ← parseStmts r
    pure (s :: ss, r')

partial def parseBlock (ts : List String) : Option (List Stmt × List String) :=
  match ts with
  | "(" :: r => do
    let (ss, r') ← parseStmts r
    match r' with
    | ")" :: r'' => pure (ss, r'')
    | _ => none
  | _ => none

partial def parseHandlers (ts : List String) : Option (List (ExcClass × List Stmt) × List String) :=
  match ts with
  | "H" :: c :: r => do
    let c ← parseCls c
    let (b, r') ← parseBlock r
    let (hs, r'') ← parseHandlers r'
    pure ((c, b) :: hs, r'')
  | _ => some ([], ts)

partial def parseStmt (ts : List String) : Option (Stmt × List String) :=
  match ts with
  | "L" :: n :: r => n.toInt?.map fun n => (.log n, r)
  | "S" :: t :: r => t.toInt?.map fun t => (.susp t, r)
  | "O" :: m :: d :: r => do
    let m ← m.toNat?
    let d ← d.toInt?
    pure (.oob m d, r)
  | "U" :: m :: r => do
    let m ← m.toNat?
    let (op, r') ← parseOp r
    pure (.sub m op, r')
  | "R" :: e :: r => (parseExc e).map fun e => (.raise e, r)
  | "T" :: v :: r => v.toInt?.map fun v => (.ret v, r)
  | "CALL" :: r => do
    let (b, r') ← parseBlock r
    pure (.call b, r')
  | "TRY" :: r => do
    let (b, r1) ← parseBlock r
    let (hs, r2) ← parseHandlers r1
    match r2 with
    | "FIN" :: r3 => do
      let (f, r4) ← parseBlock r3
      pure (.try_ b hs f, r4)
    | _ => none
  | _ => none
end

def showEv : Ev → String
  | .log n => s!"L{n}"
  | .recv v => s!"r{v}"
  | .caught e => s!"h{showExc e}"

def showLog (l : List Ev) : String := ",".intercalate (l.map showEv)

def cstState {σ : Type} : CSt σ → σ
  | .created s => s
  | .susp s => s
  | .done s => s

def cstTag {σ : Type} : CSt σ → String
  | .created _ => "new"
  | .susp _ => "susp"
  | .done _ => "done"

/-- a coroutine object of the run, with a printer for the logs inside its state -/
structure Obj where
  c : SBody
  sys : Sys c
  pending : Option (MonId × Op × Bool)   -- Bool: through a BoundMonitor
  logs : c.σ → String

def mkLeaf (pid : Nat) (prog : List Stmt) : (c : SBody) × (c.σ → String) :=
  ⟨ofM (progM prog), fun s => s!"{pid}:{showLog (logOf s)}"⟩

def mkNest (pid : Nat) (prog : List Stmt) (ch : (c : SBody) × (c.σ → String)) :
    (c : SBody) × (c.σ → String) :=
  ⟨nest (progP prog) ch.1, fun st =>
    match st with
    | .at s cc => s!"{pid}:{showLog (logOf s)}|{ch.2 (cstState cc)}"
    | .inSub _ _ s _ cc => s!"{pid}:{showLog (logOf s)}|{ch.2 (cstState cc)}"⟩

structure St where
  progs : List (Nat × List Stmt) := []
  obj : Option Obj := none

def showOut : CallOut → String
  | .pending y => s!"pend {y}"
  | .returned v => s!"ret {v}"
  | .raised e => s!"exc {showExc e}"

def report (o : Obj) (out : CallOut) : String :=
  let env := o.sys.env
  s!"{showOut out} ; {env 0},{env 1},{env 2},{env 3} ; {cstTag o.sys.coro} {o.logs (cstState o.sys.coro)}"

def build (st : St) : List Nat → Option ((c : SBody) × (c.σ → String))
  | [] => none
  | [p] =>
    match st.progs.lookup p with
    | some prog => some (mkLeaf p prog)
    | none => none
  | p :: rest =>
    match st.progs.lookup p, build st rest with
    | some prog, some ch => some (mkNest p prog ch)
    | _, _ => none

def finishStep (o : Obj) (m : MonId) (op : Op) (b : Bool) (r : Sys o.c × CallOut) : Obj × String :=
  let o' : Obj := { o with sys := r.1, pending := match r.2 with | .pending _ => some (m, op, b) | _ => none }
  (o', report o' r.2)

def stepObj (o : Obj) (args : List String) : Option (Obj × String) :=
  match args, o.pending with
  | "call" :: m :: fl :: rest, _ =>
    match m.toNat?, parseOp rest with
    | some m, some (op, _) =>
      let b := fl != "u"
      let r := if b then boundStart m op o.sys else callStart m op o.sys
      let pend := match r.2, o.pending with
        | .pending _, _ => some (m, op, b)
        | _, p => p
      let o' : Obj := { o with sys := r.1, pending := pend }
      some (o', report o' r.2)
    | _, _ => none
  | ["send", v], some (m, op, b) =>
    match v.toInt? with
    | some v => some (finishStep o m op b
        (if b then boundResume m op (.send v) o.sys else callResume m op (.send v) o.sys))
    | none => none
  | ["throw", e], some (m, op, b) =>
    match parseExc e with
    | some e => some (finishStep o m op b
        (if b then boundResume m op (.throw e) o.sys else callResume m op (.throw e) o.sys))
    | none => none
  | ["close"], some (m, op, b) =>
    let r := if b then boundClose m op o.sys else callClose m op o.sys
    let o' : Obj := { o with sys := r.1, pending := none }
    some (o', report o' r.2)
  | _, _ => none

def step (st : St) (line : String) : St × String :=
  match (line.trimAscii.toString.splitOn " ").filter (· != "") with
  | ["reset"] => ({}, "ok")
  | "prog" :: pid :: toks =>
    match pid.toNat?, parseStmts toks with
    | some pid, some (prog, []) => ({ st with progs := (pid, prog) :: st.progs }, "ok")
    | _, _ => (st, "bad-prog")
  | "mk" :: pids =>
    match pids.mapM String.toNat? with
    | some ps =>
      match build st ps with
      | some ⟨c, logs⟩ =>
        ({ st with obj := some { c := c, sys := ⟨.created c.init, fun _ => 0⟩, pending := none, logs := logs } }, "ok")
      | none => (st, "bad-mk")
    | none => (st, "bad-mk")
  | args =>
    match st.obj with
    | none => (st, "bad-op")
    | some o =>
      match stepObj o args with
      | some (o', s) => ({ st with obj := some o' }, s)
      | none => (st, "bad-op")

partial def loop (h : IO.FS.Stream) (out : IO.FS.Stream) (st : St) : IO Unit := do
  let line ← h.getLine
  if line.isEmpty then return ()
  let (st', o) := step st line
  out.putStrLn o
  loop h out st'

def main : IO Unit := do
  loop (← IO.getStdin) (← IO.getStdout) {}
