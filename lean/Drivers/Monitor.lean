/-
Line-protocol driver for the Monitor model (C07).  One op per stdin line -> one output line.

  reset
  prog <pid> <tokens…>          define a program (syntax: harness/monprog.py)
  mk <pid_outer> … <pid_inner>  coroutine = nest P_outer (… (leaf P_inner))
  call <m> <flavour> <op…>      start `M[m].<op>(coro, …)`   op: aw v | at E | ac | st | ta v s
  send <v> | throw <E> | close  resume / close the pending call
Output:  <outcome> ; <state of monitors 0..3> ; <body logs>
-/
import Asynkit.Model.MonProgParse

open Asynkit Asynkit.Proto Asynkit.Monitor Asynkit.MonProg Asynkit.MonProgParse

/-- a coroutine object of the run, with a printer for the logs inside its state -/
structure Obj where
  c : SBody
  sys : Sys c
  pending : Option (MonId × Op × Bool)   -- Bool: through a BoundMonitor
  logs : c.σ → String

def mkLeaf (pid : Nat) (prog : List Stmt) : (c : SBody) × (c.σ → String) :=
  ⟨ofM (progM prog), fun s => s!"{pid}:{showLog (logOf s)}"⟩

def mkNest (pid : Nat) (prog : List Stmt) (ch : (c : SBody) × (c.σ → String)) :
    (c : SBody) × (c.σ → String) :=
  ⟨nest (progP prog) ch.1, fun st =>
    match st with
    | .at s cc => s!"{pid}:{showLog (logOf s)}|{ch.2 (cstState cc)}"
    | .inSub _ _ s _ cc => s!"{pid}:{showLog (logOf s)}|{ch.2 (cstState cc)}"⟩

structure St where
  progs : List (Nat × List Stmt) := []
  obj : Option Obj := none

def report (o : Obj) (out : CallOut) : String :=
  let env := o.sys.env
  s!"{showOut out} ; {env 0},{env 1},{env 2},{env 3} ; {cstTag o.sys.coro} {o.logs (cstState o.sys.coro)}"

def build (st : St) : List Nat → Option ((c : SBody) × (c.σ → String))
  | [] => none
  | [p] =>
    match st.progs.lookup p with
    | some prog => some (mkLeaf p prog)
    | none => none
  | p :: rest =>
    match st.progs.lookup p, build st rest with
    | some prog, some ch => some (mkNest p prog ch)
    | _, _ => none

def finishStep (o : Obj) (m : MonId) (op : Op) (b : Bool) (r : Sys o.c × CallOut) : Obj × String :=
  let o' : Obj := { o with sys := r.1, pending := match r.2 with | .pending _ => some (m, op, b) | _ => none }
  (o', report o' r.2)

def stepObj (o : Obj) (args : List String) : Option (Obj × String) :=
  match args, o.pending with
  | "call" :: m :: fl :: rest, _ =>
    match m.toNat?, parseOp rest with
    | some m, some (op, _) =>
      let b := fl != "u"
      let r := if b then boundStart m op o.sys else callStart m op o.sys
      let pend := match r.2, o.pending with
        | .pending _, _ => some (m, op, b)
        | _, p => p
      let o' : Obj := { o with sys := r.1, pending := pend }
      some (o', report o' r.2)
    | _, _ => none
  | ["send", v], some (m, op, b) =>
    match v.toInt? with
    | some v => some (finishStep o m op b
        (if b then boundResume m op (.send v) o.sys else callResume m op (.send v) o.sys))
    | none => none
  | ["throw", e], some (m, op, b) =>
    match parseExc e with
    | some e => some (finishStep o m op b
        (if b then boundResume m op (.throw e) o.sys else callResume m op (.throw e) o.sys))
    | none => none
  | ["kill"], _ =>
    -- `coro.close()` called directly on the driven coroutine, outside any monitor
    match SCoro.close o.c o.sys.coro o.sys.env with
    | (cs, out, env) =>
      let o' : Obj := { o with sys := ⟨cs, env⟩ }
      let co : CallOut := match out with
        | .raise e => .raised e
        | _ => .returned 0
      some (o', report o' co)
  | ["close"], some (m, op, b) =>
    let r := if b then boundClose m op o.sys else callClose m op o.sys
    let o' : Obj := { o with sys := r.1, pending := none }
    some (o', report o' r.2)
  | _, _ => none

def step (st : St) (line : String) : St × String :=
  match (line.trimAscii.toString.splitOn " ").filter (· != "") with
  | ["reset"] => ({}, "ok")
  | "prog" :: pid :: toks =>
    match pid.toNat?, parseStmts toks with
    | some pid, some (prog, []) => ({ st with progs := (pid, prog) :: st.progs }, "ok")
    | _, _ => (st, "bad-prog")
  | "mk" :: pids =>
    match pids.mapM String.toNat? with
    | some ps =>
      match build st ps with
      | some ⟨c, logs⟩ =>
        ({ st with obj := some { c := c, sys := ⟨.created c.init, fun _ => 0⟩, pending := none, logs := logs } }, "ok")
      | none => (st, "bad-mk")
    | none => (st, "bad-mk")
  | args =>
    match st.obj with
    | none => (st, "bad-op")
    | some o =>
      match stepObj o args with
      | some (o', s) => ({ st with obj := some o' }, s)
      | none => (st, "bad-op")

partial def loop (h : IO.FS.Stream) (out : IO.FS.Stream) (st : St) : IO Unit := do
  let line ← h.getLine
  if line.isEmpty then return ()
  let (st', o) := step st line
  out.putStrLn o
  loop h out st'

def main : IO Unit := do
  loop (← IO.getStdin) (← IO.getStdout) {}
