/-
Line-protocol driver for the C04 model (Asynkit/Model/Ctx.lean).  See harness/c04.py.
  reset
  body  <state>;<state>;…      state = send-entry/throw-entry/exit-entry, entry = acts:term
                               acts = `s<x>=<v>` | `g<x>` comma separated, term = a<tok>><next> | r<v> | x<Exc> | rr
  init  none|v0,v1,v2  c0,c1,c2      CoroStart(coro, context=…) called under caller mapping c
  eager c0,c1,c2                     coro_eager: context = copy of the caller's mapping
  op    awsend | awthrow E | awclose | newit | athrow E | aclose | sthrow E n | sclose | cset x v
Output:  <outcome>|<reads x:v,…>|<caller mapping>|<supplied mapping or none>
Run:  lake env lean --run Drivers/Ctx.lean < ops.txt
-/
import Asynkit.Model.Ctx

open Asynkit Asynkit.Proto Asynkit.Ctx

def nvars : Nat := 3

def parseExc (s : String) : Option Exc :=
  match s with
  | "E1" => some (.other 1)
  | "E2" => some (.other 2)
  | "GeneratorExit" => some .genExit
  | "CancelledError" => some (.cancelled 0)
  | "RuntimeError" => some (.runtime 0)
  | "TypeError" => some .typeErr
  | _ => none

def showExc : Exc → String
  | .other 1 => "E1"
  | .other 2 => "E2"
  | .other 99 => "AssertionError"
  | .other n => s!"Other{n}"
  | .genExit => "GeneratorExit"
  | .cancelled _ => "CancelledError"
  | .runtime _ => "RuntimeError"
  | .typeErr => "TypeError"
  | .stopIter _ => "StopIteration"
  | .stopAsync => "StopAsyncIteration"
  | .syncAbort => "SynchronousAbort"
  | .oobData _ => "OOBData"

def showOut : Out → String
  | .yield (.tok n) => s!"yield tok {n}"
  | .yield .bare => "yield bare"
  | .yield (.fut n) => s!"yield fut {n}"
  | .ret v => s!"ret {v}"
  | .raise e => s!"raise {showExc e}"

def showMap (m : Mapping) : String :=
  ",".intercalate ((List.range nvars).map fun x => toString (m x))

def showCtx : Option Mapping → String
  | none => "none"
  | some m => showMap m

def parseMap (s : String) : Option Mapping := do
  let vs ← (s.splitOn ",").mapM (·.toInt?)
  some (fun x => vs.getD x 0)

def parseAct (s : String) : Option Act :=
  if s.startsWith "g" then ((s.drop 1).toString).toNat?.map Act.get
  else if s.startsWith "s" then
    match ((s.drop 1).toString).splitOn "=" with
    | [x, v] => do some (Act.set (← x.toNat?) (← v.toInt?))
    | _ => none
  else none

def parseTerm (s : String) : Option Term :=
  if s == "rr" then some .reraise
  else if s.startsWith "a" then
    match ((s.drop 1).toString).splitOn ">" with
    | [t, n] => do some (Term.await (← t.toInt?) (← n.toNat?))
    | _ => none
  else if s.startsWith "r" then ((s.drop 1).toString).toInt?.map Term.ret
  else if s.startsWith "x" then (parseExc ((s.drop 1).toString)).map Term.raise
  else none

def parseEntry (s : String) : Option Entry :=
  match s.splitOn ":" with
  | [a, t] => do
    let acts ← ((a.splitOn ",").filter (· != "")).mapM parseAct
    some ⟨acts, ← parseTerm t⟩
  | _ => none

def parseState (s : String) : Option PState :=
  match s.splitOn "/" with
  | [a, b, c] => do some ⟨← parseEntry a, ← parseEntry b, ← parseEntry c⟩
  | _ => none

def parseBody (s : String) : Option (List PState) := (s.splitOn ";").mapM parseState

structure DSt where
  p : List PState := []
  w : Option (CS (scriptBody p)) := none
  cur : Mapping := fun _ => 0

def pcOf {p : List PState} (w : CS (scriptBody p)) : Nat :=
  match w.coro with
  | .created s => s
  | .susp s => s
  | .done => 0

/-- reads performed by the segments of one driver step (all segments of one step are entered
    with the same kind of resume) -/
def readsFor (p : List PState) (r : Resume) : Nat → List Seg → List (Var × Val)
  | _, [] => []
  | pc, sg :: rest =>
    let e := entryOf p pc r
    let nxt := match e.term with
      | .await _ n => n
      | _ => pc
    readsOf e.acts sg.seen ++ readsFor p r nxt rest

def showReads (l : List (Var × Val)) : String :=
  ",".intercalate (l.map fun (x, v) => s!"{x}:{v}")

def emit {p : List PState} (pc : Nat) (r : Resume) (s : SR (scriptBody p)) : String :=
  s!"{showOut s.out}|{showReads (readsFor p r pc s.segs)}|{showMap s.cur}|{showCtx s.w.ctx}"

def parseOp (ws : List String) : Option (Op × Resume) :=
  match ws with
  | ["awsend"] => some (.awSend 0, .send 0)
  | ["awthrow", e] => (parseExc e).map fun e => (.awThrow e, .throw e)
  | ["awclose"] => some (.awClose, .throw .genExit)
  | ["newit"] => some (.newIt, .send 0)
  | ["athrow", e] => (parseExc e).map fun e => (.athrow e, .throw e)
  | ["aclose"] => some (.aclose, .throw .genExit)
  | ["sthrow", e, n] => do
    let e ← parseExc e
    some (.sthrow e (← n.toNat?), .throw e)
  | ["sclose"] => some (.sclose, .throw .genExit)
  | ["cset", x, v] => do some (.callerSet (← x.toNat?) (← v.toInt?), .send 0)
  | _ => none

def dstep (st : DSt) (line : String) : DSt × String :=
  match (line.trimAscii.toString.splitOn " ").filter (· != "") with
  | ["reset"] => ({}, "ok")
  | ["body", s] =>
    match parseBody s with
    | some p => ({ p := p }, "ok")
    | none => (st, "bad-body")
  | ["init", c, m] =>
    match (if c == "none" then some none else (parseMap c).map some), parseMap m with
    | some ctx, some cur =>
      let s := init repaired (scriptBody st.p) ctx cur
      ({ st with w := some s.w, cur := s.cur }, emit 0 (.send 0) s)
    | _, _ => (st, "bad-op")
  | ["eager", m] =>
    match parseMap m with
    | some cur =>
      let s := init repaired (scriptBody st.p) (some cur) cur true
      ({ st with w := some s.w, cur := s.cur }, emit 0 (.send 0) s)
    | none => (st, "bad-op")
  | "op" :: rest =>
    match st.w, parseOp rest with
    | some w, some (op, r) =>
      let s := step repaired w op st.cur
      ({ st with w := some s.w, cur := s.cur }, emit (pcOf w) r s)
    | _, _ => (st, "bad-op")
  | _ => (st, "bad-op")

partial def loop (h : IO.FS.Stream) (out : IO.FS.Stream) (st : DSt) : IO Unit := do
  let line ← h.getLine
  if line.isEmpty then return ()
  let (st', o) := dstep st line
  out.putStrLn o
  loop h out st'

def main : IO Unit := do
  loop (← IO.getStdin) (← IO.getStdout) {}
