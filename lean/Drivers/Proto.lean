/-
Line-protocol driver for the await-protocol models (C02, C05).  One case per stdin line, one
canonical output line.  See harness/c02_common.py.

  run   | <layers, outermost first, comma separated or -> | <prog> | <drives>
  sync  | <prog>
  aiter | <n next() calls> | <prog> ; <prog> ; …       (one program per __anext__)

Run:  lake env lean --run Drivers/Proto.lean < cases.txt
-/
import Asynkit.Model.Wrappers
import Asynkit.Model.ProtoProg

open Asynkit.Proto Asynkit.Proto.Prog

def excName : Exc → String
  | .genExit => "GenExit"
  | .stopIter _ => "StopIteration"
  | .stopAsync => "StopAsync"
  | .cancelled _ => "Cancelled"
  | .runtime 1 => "RT.ignoredGE"
  | .runtime 2 => "RT.reuse"
  | .runtime 3 => "RT.stopiter"
  | .runtime 4 => "RT.running"
  | .runtime 5 => "RT.ignored"
  | .runtime 6 => "SyncError"
  | .runtime 7 => "RT.reentered"
  | .runtime 8 => "RT.oob"
  | .runtime _ => "RT.other"
  | .typeErr => "TypeError"
  | .syncAbort => "SyncAbort"
  | .oobData _ => "OOBData"
  | .other 1 => "E1"
  | .other 2 => "E2"
  | .other 3 => "BE"
  | .other 4 => "FE"
  | .other 5 => "KI"
  | .other 6 => "SE"
  | .other 9001 => "AssertionError"
  | .other 9002 => "InvalidState"
  | .other _ => "Other"

def parseExc (s : String) : Option Exc :=
  match s with
  | "E1" => some (.other 1)
  | "E2" => some (.other 2)
  | "BE" => some (.other 3)
  | "FE" => some (.other 4)
  | "KI" => some (.other 5)
  | "SE" => some (.other 6)
  | "Cancelled" => some (.cancelled 0)
  | "GenExit" => some .genExit
  | "SyncAbort" => some .syncAbort
  | "StopAsync" => some .stopAsync
  | "StopIteration" => some (.stopIter 0)
  | "OOBData" => some (.oobData 0)
  | "RT.other" => some (.runtime 0)
  | "TypeError" => some .typeErr
  | "InvalidState" => some excInvalidState
  | _ => none

def parseCatch (s : String) : Option Catch :=
  match s with
  | "E1" => some .e1
  | "E2" => some .e2
  | "Cancelled" => some .cancelled
  | "GenExit" => some .genExit
  | "SyncAbort" => some .syncAbort
  | "Exception" => some .exception
  | "BaseException" => some .baseException
  | _ => none

def showY : Y → String
  | .bare => "y:bare"
  | .fut k => s!"y:fut:{k}"
  | .tok n => s!"y:tok:{n}"

def showOut : Out → String
  | .yield y => showY y
  | .ret v => s!"r:{v}"
  | .raise e => s!"x:{excName e}"

def showEv : Ev → String
  | .log n => s!"l{n}"
  | .recv v => s!"r{v}"
  | .caught e => s!"c{excName e}"
  | .cv i v => s!"v{i}={v}"

def showLog (l : List Ev) : String := if l.isEmpty then "-" else " ".intercalate (l.map showEv)

/-! ### s-expression parser -/

inductive SExp where
  | atom (s : String)
  | list (l : List SExp)
deriving Inhabited

def tokenize (s : String) : List String :=
  let s := (s.replace "(" " ( ").replace ")" " ) "
  (s.splitOn " ").filter (· != "")

partial def parseList : List String → List SExp → Option (List SExp × List String)
  | [], acc => some (acc.reverse, [])
  | ")" :: rest, acc => some (acc.reverse, ")" :: rest)
  | "(" :: rest, acc =>
    match parseList rest [] with
    | some (l, ")" :: rest') => parseList rest' (.list l :: acc)
    | _ => none
  | t :: rest, acc => parseList rest (.atom t :: acc)

mutual
partial def toStmt : SExp → Option Stmt
  | .list [.atom "log", .atom n] => n.toNat?.map .log
  | .list [.atom "tok", .atom n] => n.toInt?.map .tok
  | .list [.atom "fut", .atom n] => n.toNat?.map .fut
  | .list [.atom "bare"] => some .bare
  | .list (.atom "call" :: body) => (toStmts body).map .call
  | .list [.atom "reraise"] => some .reraise
  | .list [.atom "ret", .atom v] => v.toInt?.map .ret
  | .list [.atom "raise", .atom e] => (parseExc e).map .raise
  -- `raise E() from C()`: the model has no notion of `__cause__` of a body's own exception (the
  -- harness compares it with the native run directly); for the model it is `raise E()`
  | .list [.atom "raisefrom", .atom e, .atom _] => (parseExc e).map .raise
  | .list [.atom "cset", .atom i, .atom v] => do
    let i ← i.toNat?
    let v ← v.toInt?
    pure (.cset i v)
  | .list [.atom "cget", .atom i] => i.toNat?.map .cget
  | .list [.atom "creset", .atom i] => i.toNat?.map .creset
  | .list (.atom "try" :: .list body :: rest) => do
    let b ← toStmts body
    let mut hs : List (Catch × List Stmt) := []
    let mut fin : List Stmt := []
    for r in rest do
      match r with
      | .list (.atom "catch" :: .atom k :: hb) =>
        let c ← parseCatch k
        let hb' ← toStmts hb
        hs := hs ++ [(c, hb')]
      | .list (.atom "finally" :: fb) =>
        fin ← toStmts fb
      | _ => failure
    pure (.tryS b hs fin)
  | _ => none
partial def toStmts : List SExp → Option (List Stmt)
  | [] => some []
  | s :: rest => do
    let a ← toStmt s
    let b ← toStmts rest
    pure (a :: b)
end

def parseProg (s : String) : Option Prog :=
  match parseList (tokenize s) [] with
  | some (l, []) => toStmts l
  | _ => none

def parseDrive (s : String) : Option Drive :=
  if s == "c" then some .close
  else match s.splitOn ":" with
    | ["s", v] => v.toInt?.map .send
    | ["t", e] => (parseExc e).map .throw
    | _ => none

/-! ### objects -/

abbrev View := String

def phaseName {σ : Type} : EState σ → String
  | .created _ => "created"
  | .susp _ => "susp"
  | .done _ => "done"

/-- the innermost coroutine: body = interpreted program; view = its phase and event log -/
def progObj (p : Prog) : Obj View :=
  let C := coroObj (interp p) id
  { σ := C.σ, init := C.init, send := C.send, throw := C.throw, close := C.close,
    view := fun st => s!"phase={phaseName st} ; log={showLog st.body.log}" }

def layer (name : String) : Option (Obj View → Obj View) :=
  match name with
  | "ref" => some nativeAwaitO
  | "citer" => some coroIterO
  | "cs_await" => some coroStartO
  | "cs_ascoro" => some asCoroutineO
  | "coro_await" => some coroAwaitO
  | "am" => some (fun I => awaitMethodO (nativeAwaitO I))
  | "ami" => some (fun I => awaitMethodIterO (nativeAwaitO I))
  | "mon" => some monitorAawaitO
  | "masend" => some (fun I => monitorAsendO I 0 0)
  | "bmon" => some boundMonitorO
  | "cs_aclose" => some (fun I => coroStartAcloseO I (CS.new I))
  | _ =>
    match name.splitOn ":" with
    | ["cs_athrow", e] => (parseExc e).map (fun e I => coroStartAthrowO I (CS.new I) e)
    | _ => none

def buildStack : List String → Obj View → Option (Obj View)
  | [], I => some I
  | n :: ns, I => do
    let inner ← buildStack ns I
    let w ← layer n
    pure (w inner)

def runObj (O : Obj View) (ds : List Drive) : String :=
  let r := O.run O.init ds
  let outs := " ".intercalate (r.map (fun x => showOut x.1))
  let last := match r.getLast? with
    | some x => x.2
    | none => O.view O.init
  s!"outs={outs} ; {last}"

def runCase (layers : List String) (p : Prog) (ds : List Drive) : Option String :=
  match buildStack layers (progObj p) with
  | some O => some (runObj O ds)
  | none => none

def showCv (cv : List (Nat × Val)) : String := s!"{cvGet cv 0},{cvGet cv 1}"

def syncCase (p : Prog) : String :=
  let I := coroObj (interp p) id
  let r := awaitSync I
  let cause := match r.cause with
    | none => "-"
    | some o => showOut o
  let st : MState := r.coro.body
  s!"out={showOut r.out} ; cause={cause} ; phase={phaseName r.coro} ; log={showLog st.log} ; cv={showCv st.cv} ; reset={showCv (resetAll st.cv st.toks)}"

/-- async iterator whose i-th `__anext__` runs the i-th program (then StopAsyncIteration);
    state = index and the accumulated event log -/
def listAIter (ps : List Prog) : AIter where
  τ := Nat × List Ev
  init := (0, [])
  anext t :=
    let p : Prog := match ps[t.1]? with
      | some p => p
      | none => [.raise .stopAsync]
    let b := interp p
    { σ := b.σ, init := { b.init with log := t.2 }, resume := b.resume }
  upd t s := (t.1 + 1, s.log)

def showEnd : IterEnd → String
  | .stop => "stop"
  | .more => "more"
  | .error e c => s!"x:{excName e} cause={match c with | none => "-" | some o => showOut o}"

def aiterCase (n : Nat) (ps : List Prog) : String :=
  let r := aiterSync (listAIter ps) n (listAIter ps).init
  let items := " ".intercalate (r.1.map toString)
  s!"items={if items.isEmpty then "-" else items} ; end={showEnd r.2}"

def trim (s : String) : String := s.trimAscii.toString

def stepLine (line : String) : String :=
  match (line.splitOn "|").map trim with
  | ["run", layers, prog, drives] =>
    let ls := if layers == "-" then [] else (layers.splitOn ",").map trim
    match parseProg prog, ((drives.splitOn " ").filter (· != "")).mapM parseDrive with
    | some p, some ds => (runCase ls p ds).getD "bad-layer"
    | none, _ => "bad-prog"
    | _, none => "bad-drive"
  | ["sync", prog] =>
    match parseProg prog with
    | some p => syncCase p
    | none => "bad-prog"
  | ["aiter", n, progs] =>
    match n.toNat?, ((progs.splitOn ";").map trim).mapM parseProg with
    | some n, some ps => aiterCase n ps
    | _, _ => "bad-prog"
  | ["reset"] => "ok"
  | _ => "bad-op"

partial def loop (h : IO.FS.Stream) (out : IO.FS.Stream) : IO Unit := do
  let line ← h.getLine
  if line.isEmpty then return ()
  out.putStrLn (stepLine line)
  loop h out

def main : IO Unit := do
  loop (← IO.getStdin) (← IO.getStdout)
