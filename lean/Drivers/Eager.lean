/-
Line-protocol driver for C01/C03 (see harness/c01.py).  One case per stdin line:
  case <E|P|PS> <R|O> ; <fut specs…> ; <n> <program tokens…> ; <events…>
-> one output line: the snapshots (after the call and after every event) joined by " ;; ".
Run:  lake env lean --run Drivers/Eager.lean < cases.txt
-/
import Asynkit.Model.EagerProg

open Asynkit Asynkit.Proto Asynkit.Eager

def parseExc : String → Option Exc
  | "E1" => some excE1 | "E2" => some excE2 | "B1" => some excB1
  | "CA" => some (.cancelled 0) | "RT" => some (.runtime 0)
  | "SD" => some (.cancelled 1)      -- Shutdown("disk full", 28): a CancelledError subclass instance
  | "C2" => some (.cancelled 2)      -- CancelledError("r", 7)
  | _ => none

def parseKExc : String → Option KExc
  | "E1" => some (.other 1) | "E2" => some (.other 2) | "B1" => some (.other 3)
  | "CA" => some .cancelled | "RT" => some (.rt 0) | _ => none

def parseHK : String → Option HK
  | "N" => some .none | "E1" => some .e1 | "E2" => some .e2 | "EX" => some .ex | "CA" => some .ca
  | "BA" => some .ba | "B1" => some .b1 | "RT" => some .rt | _ => none

mutual
partial def parseStmts : Nat → List String → Option (List Stmt × List String)
  | 0, ts => some ([], ts)
  | n + 1, ts => do
    let (s, ts) ← parseStmt ts
    let (ss, ts) ← parseStmts n ts
    pure (s :: ss, ts)

partial def parseStmt : List String → Option (Stmt × List String)
  | "L" :: n :: ts => do pure (.log (← n.toInt?), ts)
  | "A" :: f :: ts => do pure (.await (← f.toNat?), ts)
  | "S" :: ts => some (.sleep0, ts)
  | "Y" :: ts => some (.badyield, ts)
  | "R" :: v :: ts => do pure (.ret (← v.toInt?), ts)
  | "X" :: k :: ts => do pure (.raise (← parseExc k), ts)
  | "T" :: n :: ts => do
    let (body, ts) ← parseStmts (← n.toNat?) ts
    match ts with
    | hk :: rr :: nh :: ts =>
      let (hbody, ts) ← parseStmts (← nh.toNat?) ts
      match ts with
      | nf :: ts =>
        let (fin, ts) ← parseStmts (← nf.toNat?) ts
        pure (.try_ body (← parseHK hk) (rr == "1") hbody fin, ts)
      | _ => none
    | _ => none
  | "C" :: n :: ts => do
    let (body, ts) ← parseStmts (← n.toNat?) ts
    pure (.call body, ts)
  | _ => none
end

def parseFut (s : String) : Option Fut :=
  if s == "P" then some {}
  else if s == "T" then some { isTask := true }
  else if s == "C" then some { st := .cancelled }
  else if s.startsWith "V" then (s.drop 1).toString.toInt?.map fun v => { st := .result v }
  else if s.startsWith "X" then (parseKExc (s.drop 1).toString).map fun e => { st := .exc e }
  else none

def parseEvents : List String → Option (List Ev)
  | [] => some []
  | "run" :: ts => do pure (.run :: (← parseEvents ts))
  | "cancel" :: ts => do pure (.cancel :: (← parseEvents ts))
  | "res" :: f :: v :: ts => do pure (.resolve (← f.toNat?) (← v.toInt?) :: (← parseEvents ts))
  | "fail" :: f :: k :: ts => do pure (.fail (← f.toNat?) (← parseKExc k) :: (← parseEvents ts))
  | "cf" :: f :: ts => do pure (.cancelFut (← f.toNat?) :: (← parseEvents ts))
  | "clr" :: f :: ts => do pure (.clearFlag (← f.toNat?) :: (← parseEvents ts))
  | _ => none

def showExc : Exc → String
  | .other 1 => "E1" | .other 2 => "E2" | .other 3 => "B1"
  | .cancelled 1 => "SD" | .cancelled 2 => "C2"
  | .cancelled _ => "CA" | .runtime _ => "RT"
  | .typeErr => "OTHER:TypeError" | _ => "OTHER:?"

def showKExc (e : KExc) : String := showExc e.toExc

def showLogE : LogE → String
  | .L n => s!"L:{n}" | .G f v => s!"G:{f}:{v}" | .S => "S" | .Y => "Y"
  | .H e => s!"H:{showExc e}" | .F => "F" | .C v => s!"C:{v}"

def showFut (x : Fut) : String :=
  (match x.st with
   | .pending => "P" | .result v => s!"V{v}" | .exc e => s!"X{showKExc e}" | .cancelled => "C")
  ++ (if x.blocking then "b" else "-") ++ (if x.cancelReq then "r" else "-")

def showOut : Option Out → String
  | none => "-"
  | some (.ret v) => s!"R{v}"
  | some (.raise (.cancelled n)) => showExc (.cancelled n)
  | some (.raise e) => s!"X{showExc e}"
  | some (.yield _) => "?"

/-- the body's log (oldest first) and phase -/
def coLog (c : Co M) : List LogE × String :=
  match c.st with
  | .created s => (s.log.reverse, "new")
  | .susp s => (s.log.reverse, "susp")
  | .done => ((match c.final with | some s => s.log.reverse | none => []), "fin")

def snap (nf : Nat) (printed : Nat) (c : Co M) (out : Option Out) (F : Futs) (nt : Nat) : String × Nat :=
  let (lg, ph) := coLog c
  let d := lg.drop printed
  let ls := if d.isEmpty then "-" else ",".intercalate (d.map showLogE)
  (s!"{ls} | {showOut out} | " ++ " ".intercalate ((List.range nf).map fun i => showFut (F i))
    ++ s!" | nt{nt} | {ph}", lg.length)

def splitSemi (ts : List String) : List (List String) :=
  ts.foldr (fun t acc => if t == ";" then [] :: acc else
    match acc with
    | [] => [[t]]
    | a :: r => (t :: a) :: r) [[]]

def ntOf (t : Task) : Nat := if t.outcome.isNone then 1 else 0

def runCase (mode fix : String) (futs : List Fut) (prog : List Stmt) (evs : List Ev) : String :=
  let F : Futs := fun i => futs.getD i {}
  let nf := futs.length
  let b := progBody prog
  let fx := if fix == "O" then Fix.original else Fix.repaired
  let go {κ : Type} (cstep : CStep κ) (co : κ → Co M) (k : K κ) : String :=
    let (s0, p0) := snap nf 0 (co k.co) k.task.outcome k.futs (ntOf k.task)
    let (_, _, acc) := evs.foldl (fun (st : K κ × Nat × List String) e =>
      let k' := kstep cstep st.1 e
      let (s, p) := snap nf st.2.1 (co k'.co) k'.task.outcome k'.futs (ntOf k'.task)
      (k', p, s :: st.2.2)) (k, p0, [s0])
    " ;; ".intercalate acc.reverse
  match mode with
  | "P" => go (coStep b) id (plainTask b F)
  | "PS" => go (coStep b) id (plainStarted b F)
  | _ =>
    match eagerRun fx b F with
    | .task k => go (contResume fx b) Cont.co k
    | .future co out F' =>
      -- a completed future: every event leaves the outcome alone; futures still evolve
      let k : K (Co M) := ⟨co, { ready := none, outcome := some out }, F'⟩
      go (coStep b) id { k with task := { k.task with outcome := some out } }

def step (line : String) : String :=
  let ts := (line.trimAscii.toString.splitOn " ").filter (· != "")
  match splitSemi ts with
  | ["case", mode, fix] :: futs :: (n :: prog) :: evs :: [] =>
    match futs.mapM parseFut, n.toNat?, parseEvents evs with
    | some fs, some n, some es =>
      match parseStmts n prog with
      | some (p, []) => runCase mode fix fs p es
      | _ => "bad-prog"
    | _, _, _ => "bad-case"
  | _ => "bad-line"

partial def loop (h : IO.FS.Stream) (out : IO.FS.Stream) : IO Unit := do
  let line ← h.getLine
  if line.isEmpty then return ()
  out.putStrLn (step line)
  loop h out

def main : IO Unit := do
  loop (← IO.getStdin) (← IO.getStdout)
