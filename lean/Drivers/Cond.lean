/-
Trace-acceptance driver for the condition-variable model (C14).  One line in -> one line out.

  reset pc|ic                 -> ok
  ev <event> <args..>         -> ok | disabled <event>        (event must be enabled in the model)
  obs owner=.. 0:.. 1:..      -> obs <model's observable state for the same tids>
  chk exit t ret|raise k      -> ok | mismatch <model's record>  (last exit record of wait() of t)
  chk woken t1,t2,..|-        -> ok | mismatch ..   (observed order of resolution of the last notify must be a
                                                     subsequence of the model's walk order)
  chk wfexit t ret|raise k    -> same for wait_for

Run:  lake env lean --run Drivers/Cond.lean < trace.txt
-/
import Asynkit.Model.Cond

open Asynkit.Cond

structure DSt where
  s : State := init .pc
  dead : Bool := false      -- an event was not enabled: everything after it is reported
  woken : List Nat := []    -- futures set by the last notify event, in the order the model's walk set them

def showFut : Fut → String
  | .pending => "pending" | .done => "done" | .cancelled => "cancelled"

def showW (s : State) (t : Nat) : String :=
  let x := s.w t
  match x.pc with
  | .idle => s!"{t}:idle"
  | .acquiring => s!"{t}:acquiring"
  | .reacq => s!"{t}:reacq"
  | .waiting => s!"{t}:waiting:{showFut x.fut}:{if s.queue.contains t then 1 else 0}"

def showObs (s : State) (tids : List Nat) : String :=
  let ow := match s.owner with | none => "-" | some j => toString j
  " ".intercalate (s!"owner={ow}" :: tids.map (showW s))

def showOut : Out → String
  | .ret => "ret" | .raise e => s!"raise {e}"

def parseEvent : List String → Option Event
  | ["acq", j] => j.toNat?.map .acq
  | ["rel", j] => j.toNat?.map .rel
  | ["wfStart", j] => j.toNat?.map .wfStart
  | ["wfPred", j, b] => do some (.wfPred (← j.toNat?) (b == "1"))
  | ["waitStart", j, p] => do some (.waitStart (← j.toNat?) (← p.toInt?))
  | ["deliver", j, e, c] => do some (.deliver (← j.toNat?) (← e.toNat?) (c == "1"))
  | ["wake", j, "ok"] => do some (.wake (← j.toNat?) .ok)
  | ["wake", j, "exc", e] => do some (.wake (← j.toNat?) (.exc (← e.toNat?)))
  | ["acqImm", j] => j.toNat?.map .acqImm
  | ["acqBlock", j] => j.toNat?.map .acqBlock
  | ["acqOk", j] => j.toNat?.map .acqOk
  | ["acqExc", j, e] => do some (.acqExc (← j.toNat?) (← e.toNat?))
  | ["notify", j, n] => do some (.notify (← j.toNat?) (← n.toNat?))
  | ["notifyAll", j] => j.toNat?.map .notifyAll
  | _ => none

def parseOut : List String → Option Out
  | ["ret"] => some .ret
  | ["raise", k] => k.toNat?.map .raise
  | _ => none

def chkExit (s : State) (t : Nat) (wf : Bool) (o : Out) : String :=
  match s.exits.find? (fun x => x.tid == t && x.wf == wf) with
  | none => "mismatch no-exit-record"
  | some x =>
    if x.out = o then
      -- the model's own exits always satisfy the theorems; report them so that the trace is
      -- checked against the proved facts and not only against the transition relation
      if x.ownerAt = some t then "ok" else "mismatch owner"
    else s!"mismatch {showOut x.out}"

def isSubseq : List Nat → List Nat → Bool
  | [], _ => true
  | _ :: _, [] => false
  | a :: as, b :: bs => if a == b then isSubseq as bs else isSubseq (a :: as) bs

def stepLine (d : DSt) (line : String) : DSt × String :=
  match (line.trimAscii.toString.splitOn " ").filter (· != "") with
  | ["reset", "pc"] => ({ s := init .pc }, "ok")
  | ["reset", "ic"] => ({ s := init .ic }, "ok")
  | "ev" :: rest =>
    if d.dead then (d, "dead") else
    match parseEvent rest with
    | none => ({ d with dead := true }, "bad-event")
    | some e =>
      let wk := match e with
        | .notify _ n => (notifyFn d.s.kind n d.s.w d.s.queue).2
        | .notifyAll _ => (notifyFn d.s.kind d.s.queue.length d.s.w d.s.queue).2
        | _ => d.woken
      match step d.s e with
      | none => ({ d with dead := true }, "disabled " ++ " ".intercalate rest)
      | some s' => ({ d with s := s', woken := wk }, "ok")
  | "obs" :: rest =>
    if d.dead then (d, "dead") else
    let tids := rest.filterMap fun tok =>
      if tok.startsWith "owner=" then none else (tok.splitOn ":").head?.bind String.toNat?
    (d, "obs " ++ showObs d.s tids)
  | ["chk", "woken", l] =>
    if d.dead then (d, "dead") else
    -- the observed resolution order (waiters that still had a wake-up callback) must be a subsequence of
    -- the order in which the model's walk set the futures
    let obs := if l == "-" then [] else (l.splitOn ",").filterMap String.toNat?
    (d, if isSubseq obs d.woken then "ok" else s!"mismatch model order {d.woken}")
  | "chk" :: "exit" :: t :: rest =>
    if d.dead then (d, "dead") else
    match t.toNat?, parseOut rest with
    | some t, some o => (d, chkExit d.s t false o)
    | _, _ => (d, "mismatch unparsable (an exception of unknown identity left wait)")
  | "chk" :: "wfexit" :: t :: rest =>
    if d.dead then (d, "dead") else
    match t.toNat?, parseOut rest with
    | some t, some o => (d, chkExit d.s t true o)
    | _, _ => (d, "mismatch unparsable (an exception of unknown identity left wait_for)")
  | _ => (d, "bad-op")

partial def loop (h : IO.FS.Stream) (out : IO.FS.Stream) (d : DSt) : IO Unit := do
  let line ← h.getLine
  if line.isEmpty then return ()
  let (d', o) := stepLine d line
  out.putStrLn o
  loop h out d'

def main : IO Unit := do
  loop (← IO.getStdin) (← IO.getStdout) {}
